package wtutil

import (
	"context"
	"errors"
	"fmt"
	"sort"
	"time"

	"github.com/XiaoMi/Gaea/util"

	"verif/harness/simkit"
)

// C24: the real util.ResourcePool under scheduler-chosen interleavings of
// get / put / idle close / scale-out / scale-in / SetCapacity / Close.

func init() {
	worlds["C24"] = &simkit.World{Property: "C24", Run: runC24, Classify: classifyC24, TraceCap: 4000, MinBudget: 600}
}

type c24res struct {
	id     int
	closed bool
}

type c24world struct {
	r              *simkit.Run
	rp             *util.ResourcePool
	maxCap         int
	nextID         int
	created        map[int]*c24res
	holders        map[string]*c24res // task -> held resource
	inOp           map[string]string  // task -> operation in progress
	closeReq       bool               // Close has been called (maybe still waiting)
	closed         bool               // Close returned
	getDuringClose bool
}

func (w *c24world) Close(res *c24res) {}

type c24wrap struct {
	w   *c24world
	res *c24res
}

func (c *c24wrap) Close() {
	if c.res.closed {
		c.w.r.Failf("double-close", "resource %d closed twice", c.res.id)
	}
	c.res.closed = true
}

func runC24(r *simkit.Run) {
	tp := r.Tape
	w := &c24world{r: r, created: map[int]*c24res{}, holders: map[string]*c24res{}, inOp: map[string]string{}}
	capacity := tp.Range(1, 3)
	w.maxCap = tp.Range(capacity, 4)
	idle := []time.Duration{0, 2 * time.Second, 10 * time.Second}[tp.Choose(3)]
	nClients := tp.Range(2, 4)
	opsPer := tp.Range(1, 4)
	withAdmin := tp.Chance(1, 2)
	withClose := tp.Chance(1, 2)
	factoryFail := tp.Chance(1, 4)
	factorySlow := tp.Chance(1, 4)
	den := []int{4, 4, 2, 1}[tp.Choose(4)]
	r.SetSiteDensity(den, uint32(tp.Choose(1<<16)))
	strict := simkit.Params["partition"] == "strict"
	if strict {
		withClose = false
	}

	failBudget := 0
	if factoryFail {
		failBudget = tp.Range(1, 4)
	}
	factory := func() (util.Resource, error) {
		if factorySlow {
			simkit.Sleep(700 * time.Millisecond)
		}
		if failBudget > 0 && tp.Chance(1, 2) {
			failBudget--
			r.Fault("factory-error")
			return nil, errors.New("factory failed")
		}
		w.nextID++
		res := &c24res{id: w.nextID}
		w.created[res.id] = res
		return &c24wrap{w: w, res: res}, nil
	}
	rp, err := util.NewResourcePool(factory, capacity, w.maxCap, idle)
	if err != nil {
		r.Failf("harness", "NewResourcePool: %v", err)
		return
	}
	w.rp = rp
	cfg := fmt.Sprintf("cap=%d max=%d idle=%v clients=%d ops=%d admin=%v close=%v ffail=%v fslow=%v den=%d", capacity, w.maxCap, idle, nClients, opsPer, withAdmin, withClose, factoryFail, factorySlow, den)
	r.Logf("config %s", cfg)

	timeouts := []time.Duration{0, 50 * time.Millisecond, 2 * time.Second}
	for i := 0; i < nClients; i++ {
		name := fmt.Sprintf("c%d", i)
		// pre-draw the client's script so the tape order does not depend on scheduling
		type op struct {
			to     time.Duration
			hold   time.Duration
			putNil bool
		}
		script := make([]op, opsPer)
		for j := range script {
			script[j] = op{to: timeouts[tp.Choose(3)], hold: []time.Duration{0, 0, 100 * time.Millisecond, 3 * time.Second}[tp.Choose(4)], putNil: tp.Chance(1, 4)}
		}
		r.Go(name, func() {
			for _, o := range script {
				ctx := context.Background()
				cancel := func() {}
				if o.to > 0 {
					ctx, cancel = simkit.WithTimeout(ctx, o.to)
				}
				w.inOp[name] = "get"
				if w.closeReq && !w.closed {
					w.getDuringClose = true
				}
				res, err := rp.Get(ctx)
				cancel()
				delete(w.inOp, name)
				if err != nil {
					r.Logf("%s get -> err %s", name, errKind(err))
					continue
				}
				cw := res.(*c24wrap)
				r.Logf("%s get -> res %d", name, cw.res.id)
				if cw.res.closed {
					r.Failf("closed-resource-issued", "%s was given resource %d which the pool had closed", name, cw.res.id)
				}
				for other, h := range w.holders {
					if h == cw.res {
						r.Failf("double-issue", "resource %d handed to %s while %s still holds it", cw.res.id, name, other)
					}
				}
				w.holders[name] = cw.res
				if len(w.holders) > w.maxCap {
					r.Failf("over-allocation", "%d resources handed out, max capacity %d", len(w.holders), w.maxCap)
				}
				if o.hold > 0 {
					simkit.Sleep(o.hold)
				}
				simkit.Pause(r, "hold:"+name)
				w.inOp[name] = "put"
				delete(w.holders, name)
				func() {
					defer func() {
						if e := recover(); e != nil {
							r.Failf("put-failed", "%s returning resource %d: %v", name, cw.res.id, e)
						}
					}()
					if o.putNil {
						cw.Close()
						rp.Put(nil)
					} else {
						rp.Put(res)
					}
				}()
				delete(w.inOp, name)
				r.Logf("%s put res %d nil=%v", name, cw.res.id, o.putNil)
				simkit.Pause(r, "idle:"+name)
			}
		})
	}
	if withAdmin {
		n := tp.Range(1, 2)
		caps := make([]int, n)
		for i := range caps {
			caps[i] = tp.Range(1, w.maxCap)
		}
		r.Go("admin", func() {
			for _, c := range caps {
				w.inOp["admin"] = "setcap"
				err := rp.SetCapacity(c)
				delete(w.inOp, "admin")
				r.Logf("admin SetCapacity(%d) -> %v", c, err)
				simkit.Pause(r, "idle:admin")
			}
		})
	}
	if withClose {
		r.Go("closer", func() {
			w.inOp["closer"] = "close"
			w.closeReq = true
			rp.Close()
			w.closed = true
			delete(w.inOp, "closer")
			r.Logf("closer Close returned")
		})
	}

	advances := []time.Duration{10 * time.Millisecond, 300 * time.Millisecond, 1 * time.Second, 6 * time.Second, 61 * time.Second}
	maxSteps := 3000
	concurrent := 0
	lastProgress := r.Now()
	for r.Steps < maxSteps && !r.Failed() {
		r.Settle()
		w.invariants()
		if r.Failed() {
			break
		}
		en := r.Enabled()
		if len(w.inOp) >= 2 {
			concurrent++
		}
		if len(en) == 0 {
			// nothing runnable: tasks are blocked in the pool (waiting get,
			// Close waiting for returns) or finished. Let time pass a bounded
			// number of times, then stop.
			if len(w.inOp) == 0 {
				break
			}
			if r.Now()-lastProgress > 10*time.Minute {
				r.Failf("stuck", "operations %v made no progress for 10 simulated minutes with nothing runnable", w.inOp)
				break
			}
			r.Advance(advances[tp.Choose(len(advances))])
			continue
		}
		// menu: 0..len(en)-1 resume; last = advance clock (rarely)
		if tp.Chance(1, 12) {
			r.Advance(advances[tp.Choose(len(advances))])
			continue
		}
		r.Release(en[tp.Choose(len(en))])
		lastProgress = r.Now()
	}
	if !r.Failed() && r.Steps >= maxSteps {
		r.Probe("step-cap")
	}
	if !r.Failed() {
		// final quiescence: let timers run a while and check again
		r.Settle()
		w.invariants()
	}
	r.Nontrivial = concurrent > 0
	if w.getDuringClose {
		r.Probe("get-while-close-pending")
	}
	if rp.IdleClosed() > 0 {
		r.Probe("idle-closed")
	}
	if util.VerifPoolBaseCap(rp) != int64(capacity) {
		r.Probe("setcapacity-changed-base")
	}
	r.Sample = map[string]interface{}{"config": cfg, "steps": r.Steps, "concurrent_steps": concurrent, "trace_head": head(r.Trace(), 25)}
	// drain: release everything, stop timers so goroutines can exit
	r.Stop()
	if !w.closeReq {
		done := make(chan struct{})
		go func() { defer func() { recover(); close(done) }(); rp.Close() }()
		select {
		case <-done:
		case <-simkit.After(5 * time.Minute):
		}
	}
}

func head(s []string, n int) []string {
	if len(s) > n {
		return s[:n]
	}
	return s
}

func (w *c24world) invariants() {
	r, rp := w.r, w.rp
	if len(w.holders) > w.maxCap {
		r.Failf("over-allocation", "%d resources handed out, max capacity %d", len(w.holders), w.maxCap)
	}
	seen := map[*c24res]string{}
	names := make([]string, 0, len(w.holders))
	for n := range w.holders {
		names = append(names, n)
	}
	sort.Strings(names)
	for _, n := range names {
		h := w.holders[n]
		if o, ok := seen[h]; ok {
			r.Failf("double-issue", "resource %d held by %s and %s", h.id, o, n)
		}
		seen[h] = n
		if h.closed {
			r.Failf("closed-resource-held", "resource %d held by %s was closed by the pool", h.id, n)
		}
	}
	quiescent := len(w.inOp) == 0 && !util.VerifPoolScaleInBusy(rp)
	if quiescent {
		// no goroutine may be parked inside a pool function
		for _, p := range r.Enabled() {
			if len(p.Site) < 5 || (p.Site[:5] != "idle:" && p.Site[:5] != "hold:" && p.Site[:6] != "start:") {
				quiescent = false
			}
		}
		if r.ParkedCount() != len(r.Enabled()) {
			quiescent = false
		}
	}
	st := fmt.Sprintf("cap=%d avail=%d inuse=%d active=%d chan=%d held=%d q=%v", rp.Capacity(), rp.Available(), rp.InUse(), rp.Active(), util.VerifPoolChanLen(rp), len(w.holders), quiescent)
	r.State(simkit.Hash(st))
	if !quiescent {
		return
	}
	r.Probe("quiescent-check")
	if rp.Available()+rp.InUse() != rp.Capacity() {
		r.Failf("quiescent-identity", "idle %d + in-use %d != capacity %d with no operation in progress (%s)", rp.Available(), rp.InUse(), rp.Capacity(), st)
	}
	if int64(util.VerifPoolChanLen(rp)) != rp.Available() {
		r.Failf("quiescent-channel", "pool holds %d idle slots but reports %d available (%s)", util.VerifPoolChanLen(rp), rp.Available(), st)
	}
	if rp.InUse() != int64(len(w.holders)) {
		r.Failf("quiescent-inuse", "pool reports %d in use, %d are held (%s)", rp.InUse(), len(w.holders), st)
	}
}

func classifyC24(r *simkit.Run) {}

func errKind(err error) string {
	switch {
	case err == nil:
		return "nil"
	case err == util.ErrClosed:
		return "closed"
	case err == util.ErrTimeout:
		return "timeout"
	case len(err.Error()) > 40:
		return err.Error()[:14]
	}
	return err.Error()
}
