package wtutil

import (
	"fmt"
	"sort"
	"time"

	"github.com/XiaoMi/Gaea/util"

	"verif/harness/simkit"
)

// C37: the real util.TimeWheel goroutine on the fake clock. Registrations,
// refreshes and removals happen at tape-chosen instants; every callback is
// checked against the window [lastActivity+timeout, lastActivity+timeout+tick].

func init() {
	worlds["C37"] = &simkit.World{Property: "C37", Run: runC37, TraceCap: 2000, MinBudget: 500}
}

type c37reg struct {
	id        int
	key       string
	at        time.Duration // call time of Add
	timeout   time.Duration
	fired     int
	firedAt   time.Duration
	cancelled bool // superseded by a later Add or removed
	cancelAt  time.Duration
}

func runC37(r *simkit.Run) {
	tp := r.Tape
	tick := time.Duration(tp.Range(1, 3)) * time.Second
	buckets := tp.Range(3, 8)
	nKeys := tp.Range(1, 4)
	nOps := tp.Range(3, 24)
	span := tick * time.Duration(buckets)
	tw, err := util.NewTimeWheel(tick, buckets)
	if err != nil {
		r.Failf("harness", "NewTimeWheel: %v", err)
		return
	}
	tw.Start()
	const slack = time.Millisecond // timers carry a nanosecond-scale uniqueness offset
	cfg := fmt.Sprintf("tick=%v buckets=%d keys=%d ops=%d", tick, buckets, nKeys, nOps)
	r.Logf("config %s", cfg)

	var regs []*c37reg
	latest := map[string]*c37reg{}
	fire := func(reg *c37reg) func() {
		return func() {
			now := r.Now()
			reg.fired++
			reg.firedAt = now
			r.Logf("fire reg%d key=%s at %v (added %v timeout %v)", reg.id, reg.key, now, reg.at, reg.timeout)
			if reg.fired > 1 {
				r.Failf("fired-twice", "registration %d of %s ran its callback %d times", reg.id, reg.key, reg.fired)
			}
			if reg.cancelled && reg.cancelAt < now {
				r.Failf("stale-registration-fired", "registration %d of %s (added at %v) fired at %v although it was superseded or removed at %v", reg.id, reg.key, reg.at, now, reg.cancelAt)
			}
			if now+slack < reg.at+reg.timeout {
				r.Failf("fired-early", "registration %d of %s added at %v with timeout %v fired at %v, %v early", reg.id, reg.key, reg.at, reg.timeout, now, reg.at+reg.timeout-now)
			}
			if now > reg.at+reg.timeout+tick+slack {
				r.Failf("fired-late", "registration %d of %s added at %v with timeout %v fired at %v, more than one tick (%v) late", reg.id, reg.key, reg.at, reg.timeout, now, tick)
			}
		}
	}
	checkOverdue := func() {
		now := r.Now()
		for _, reg := range regs {
			if !reg.cancelled && reg.fired == 0 && now > reg.at+reg.timeout+tick+slack {
				r.Failf("not-fired", "registration %d of %s added at %v with timeout %v has not fired at %v", reg.id, reg.key, reg.at, reg.timeout, now)
			}
		}
	}
	superseded, removed, fired := 0, 0, 0
	burstDone := false
	for i := 0; i < nOps && !r.Failed(); i++ {
		key := fmt.Sprintf("k%d", tp.Choose(nKeys))
		if !burstDone && tp.Chance(1, 16) {
			// a burst of activity of many other sessions inside one tick (the wheel may drop refreshes it cannot
			// queue: nothing is claimed about those sessions), then a watched session ends. Its removal must
			// hold however busy the wheel is. Nothing else is registered until the wheel has caught up.
			burstDone = true
			n := []int{200, 3000, 5000, 9000}[tp.Choose(4)]
			for b := 0; b < n; b++ {
				tw.Add(time.Duration(tp.Range(1, 2*buckets))*tick, fmt.Sprintf("bulk%d", b%1500), func() {})
			}
			if old := latest[key]; old != nil && !old.cancelled && old.fired == 0 {
				old.cancelled, old.cancelAt = true, r.Now()
				removed++
				r.Probe("removed-during-a-burst")
			}
			r.Steps++
			r.Sched("burst-remove", fmt.Sprintf("%s/%d", key, n))
			r.Logf("%d burst of %d registrations of other sessions, then remove key=%s at %v", r.Steps, n, key, r.Now())
			tw.Remove(key)
			r.Advance(tick + time.Millisecond)
			checkOverdue()
			r.Settle()
			continue
		}
		switch op := tp.Choose(8); {
		case op <= 3: // add / refresh
			// timeouts below, equal to and several multiples of the span, always whole ticks
			var m int
			switch tp.Choose(4) {
			case 0:
				m = tp.Range(1, buckets-1)
			case 1:
				m = buckets
			case 2:
				m = buckets * tp.Range(2, 3)
			default:
				m = tp.Range(1, 3*buckets)
			}
			reg := &c37reg{id: len(regs), key: key, at: r.Now(), timeout: time.Duration(m) * tick}
			if old := latest[key]; old != nil && !old.cancelled && old.fired == 0 {
				old.cancelled, old.cancelAt = true, r.Now()
				superseded++
			}
			regs = append(regs, reg)
			latest[key] = reg
			r.Steps++
			r.Sched("add", fmt.Sprintf("%s/%d", key, m))
			r.Logf("%d add reg%d key=%s timeout=%v at %v", r.Steps, reg.id, key, reg.timeout, reg.at)
			if err := tw.Add(reg.timeout, key, fire(reg)); err != nil {
				r.Failf("harness", "Add: %v", err)
			}
		case op == 4: // remove
			if old := latest[key]; old != nil && !old.cancelled && old.fired == 0 {
				old.cancelled, old.cancelAt = true, r.Now()
				removed++
			}
			r.Steps++
			r.Sched("remove", key)
			r.Logf("%d remove key=%s at %v", r.Steps, key, r.Now())
			tw.Remove(key)
		default: // let time pass
			ds := []time.Duration{100 * time.Millisecond, 500 * time.Millisecond, tick - time.Millisecond, tick, tick + time.Millisecond, 5 * tick / 2, span - tick, span, span + tick, 3 * span}
			r.Advance(ds[tp.Choose(len(ds))])
			checkOverdue()
		}
		r.Settle()
	}
	// drain: everything still registered must fire within its window
	if !r.Failed() {
		var maxDue time.Duration
		for _, reg := range regs {
			if d := reg.at + reg.timeout + tick; !reg.cancelled && reg.fired == 0 && d > maxDue {
				maxDue = d
			}
		}
		for r.Now() <= maxDue+slack && !r.Failed() {
			r.Advance(tick)
			checkOverdue()
		}
		r.Advance(span + tick)
		checkOverdue()
		for _, reg := range regs {
			if reg.cancelled && reg.fired > 0 && reg.firedAt > reg.cancelAt {
				r.Failf("stale-registration-fired", "registration %d of %s fired after being cancelled", reg.id, reg.key)
			}
		}
	}
	for _, reg := range regs {
		if reg.fired > 0 {
			fired++
		}
	}
	r.Nontrivial = fired > 0 && (superseded > 0 || removed > 0)
	if superseded > 0 {
		r.Probe("refresh-superseded-older-registration")
	}
	if removed > 0 {
		r.Probe("removed-before-firing")
	}
	for _, reg := range regs {
		if reg.timeout >= span {
			r.Probe("timeout-at-least-wheel-span")
			break
		}
	}
	keys := make([]string, 0, len(latest))
	for k := range latest {
		keys = append(keys, k)
	}
	sort.Strings(keys)
	r.State(simkit.Hash(fmt.Sprint(cfg, superseded, removed, fired)))
	r.Sample = map[string]interface{}{"config": cfg, "registrations": len(regs), "fired": fired, "superseded": superseded, "removed": removed, "trace_head": head(r.Trace(), 30)}
	tw.Stop()
	simkit.Sleep(2 * tick)
}
