// Package mycli is the simulated MySQL client of the W1 world (client side of
// the wire protocol, written independently of the repository's mysql package).
package mycli

import (
	"encoding/binary"
	"errors"
	"fmt"
	"math"
	"net"

	"verif/harness/myproto"
)

type Client struct {
	PC         *myproto.PacketConn
	NC         net.Conn
	Greeting   myproto.Greeting
	Caps       uint32
	Status     uint16
	Dead       bool   // the connection failed at transport level
	Switched   string // plugin named by an auth switch request ("" = none); SwitchSeen tells whether one arrived
	SwitchSeen bool
}

type Result struct {
	OK      *myproto.OKInfo
	Columns []myproto.Column
	Rows    [][][]byte // text protocol: nil = NULL
	BinRows [][]Value  // binary protocol
	Status  uint16
}

type Options struct {
	User, Password, DB string
	Plugin             string // "" | mysql_native_password | caching_sha2_password
	Auth               []byte // overrides the computed scramble when non-nil
	Charset            byte
	ExtraCaps          uint32
	NoPluginAuth       bool
	// MaskCaps drops CLIENT_PLUGIN_AUTH when the server does not advertise it (what real clients do).
	MaskCaps bool
	// AuthFn, when set, computes the auth response: stage 0 = handshake response, stage 1 = answer to an
	// auth switch request; plugin is the method in effect (the one the client declared, or the one the
	// server switched to), salt the server's 20 bytes.
	AuthFn func(stage int, plugin string, salt []byte) []byte
}

var ErrTransport = errors.New("transport failure")

func DefaultCaps() uint32 {
	return myproto.CLongPassword | myproto.CFoundRows | myproto.CLongFlag | myproto.CProtocol41 | myproto.CTransactions | myproto.CSecureConnection | myproto.CMultiResults | myproto.CPSMultiResults
}

// Connect performs the handshake. A server refusal is returned as *myproto.ServerError.
func Connect(nc net.Conn, o Options) (*Client, error) {
	c := &Client{PC: myproto.NewPacketConn(nc), NC: nc}
	pkt, err := c.PC.ReadPacket()
	if err != nil {
		c.Dead = true
		return c, fmt.Errorf("%w: reading greeting: %v", ErrTransport, err)
	}
	g, err := myproto.ParseGreeting(pkt)
	if err != nil {
		return c, err
	}
	c.Greeting = g
	caps := DefaultCaps() | o.ExtraCaps
	if o.DB != "" {
		caps |= myproto.CConnectWithDB
	}
	if !o.NoPluginAuth && !(o.MaskCaps && g.Caps&myproto.CPluginAuth == 0) {
		caps |= myproto.CPluginAuth
	}
	c.Caps = caps
	auth := o.Auth
	if o.AuthFn != nil {
		salt := g.Salt
		if len(salt) > 20 {
			salt = salt[:20]
		}
		auth = o.AuthFn(0, o.Plugin, salt)
	} else if auth == nil {
		salt := g.Salt
		if len(salt) > 20 {
			salt = salt[:20]
		}
		if o.Plugin == "caching_sha2_password" {
			auth = myproto.Sha2Scramble(o.Password, salt)
		} else {
			auth = myproto.NativeScramble(o.Password, salt)
		}
	}
	cs := o.Charset
	if cs == 0 {
		cs = 45
	}
	l := myproto.Login{Caps: caps, Charset: cs, User: o.User, Auth: auth, DB: o.DB, Plugin: o.Plugin}
	if err := c.PC.WritePacket(l.Encode()); err != nil {
		c.Dead = true
		return c, fmt.Errorf("%w: writing login: %v", ErrTransport, err)
	}
readReply:
	pkt, err = c.PC.ReadPacket()
	if err != nil {
		c.Dead = true
		return c, fmt.Errorf("%w: reading login reply: %v", ErrTransport, err)
	}
	if len(pkt) == 0 {
		return c, errors.New("empty login reply")
	}
	switch pkt[0] {
	case 0xfe:
		// auth switch request: plugin name NUL salt [NUL]
		if c.SwitchSeen {
			return c, errors.New("second auth switch request")
		}
		c.SwitchSeen = true
		rest := pkt[1:]
		i := 0
		for i < len(rest) && rest[i] != 0 {
			i++
		}
		c.Switched = string(rest[:i])
		var salt []byte
		if i+1 <= len(rest) {
			salt = append(salt, rest[i+1:]...)
		}
		if len(salt) > 20 {
			salt = salt[:20]
		}
		var resp []byte
		switch {
		case o.AuthFn != nil:
			resp = o.AuthFn(1, c.Switched, salt)
		case c.Switched == "caching_sha2_password":
			resp = myproto.Sha2Scramble(o.Password, salt)
		default:
			resp = myproto.NativeScramble(o.Password, salt)
		}
		if err := c.PC.WritePacket(resp); err != nil {
			c.Dead = true
			return c, fmt.Errorf("%w: writing auth switch response: %v", ErrTransport, err)
		}
		goto readReply
	case 0x01:
		// caching_sha2 "more data" (fast auth success): the OK or ERR follows
		goto readReply
	case 0x00:
		ok, err := myproto.ParseOK(pkt)
		if err != nil {
			return c, err
		}
		c.Status = ok.Status
		return c, nil
	case 0xff:
		return c, myproto.ParseERR(pkt)
	}
	return c, fmt.Errorf("unexpected login reply 0x%02x", pkt[0])
}

func (c *Client) send(cmd byte, payload []byte) error {
	c.PC.Seq = 0
	b := append([]byte{cmd}, payload...)
	if err := c.PC.WritePacket(b); err != nil {
		c.Dead = true
		return fmt.Errorf("%w: %v", ErrTransport, err)
	}
	return nil
}

func (c *Client) read() ([]byte, error) {
	pkt, err := c.PC.ReadPacket()
	if err != nil {
		c.Dead = true
		return nil, fmt.Errorf("%w: %v", ErrTransport, err)
	}
	if len(pkt) == 0 {
		return nil, errors.New("empty packet")
	}
	return pkt, nil
}

// SendRaw / ReadRaw give tests access to the packet layer.
func (c *Client) SendRaw(cmd byte, payload []byte) error { return c.send(cmd, payload) }
func (c *Client) ReadRaw() ([]byte, error)               { return c.read() }

func isEOF(p []byte) bool { return p[0] == 0xfe && len(p) < 9 }

// readResult reads one result (OK / ERR / result set). more reports SERVER_MORE_RESULTS_EXISTS.
func (c *Client) readResult(binaryRows bool) (*Result, bool, error) {
	pkt, err := c.read()
	if err != nil {
		return nil, false, err
	}
	switch pkt[0] {
	case 0x00:
		ok, err := myproto.ParseOK(pkt)
		if err != nil {
			return nil, false, err
		}
		c.Status = ok.Status
		return &Result{OK: &ok, Status: ok.Status}, ok.Status&myproto.SMoreResults != 0, nil
	case 0xff:
		return nil, false, myproto.ParseERR(pkt)
	case 0xfb:
		return nil, false, errors.New("LOCAL INFILE request not supported")
	}
	n, _, k := myproto.ReadLenInt(pkt)
	if k == 0 || k != len(pkt) {
		return nil, false, fmt.Errorf("malformed column count packet % x", pkt)
	}
	res := &Result{}
	for i := uint64(0); i < n; i++ {
		p, err := c.read()
		if err != nil {
			return nil, false, err
		}
		col, err := myproto.ParseColumn(p)
		if err != nil {
			return nil, false, err
		}
		res.Columns = append(res.Columns, col)
	}
	p, err := c.read()
	if err != nil {
		return nil, false, err
	}
	if !isEOF(p) {
		return nil, false, fmt.Errorf("expected EOF after %d column definitions, got 0x%02x len %d", n, p[0], len(p))
	}
	for {
		p, err := c.read()
		if err != nil {
			return nil, false, err
		}
		if p[0] == 0xff {
			return nil, false, myproto.ParseERR(p)
		}
		if isEOF(p) {
			if len(p) >= 5 {
				res.Status = uint16(p[3]) | uint16(p[4])<<8
				c.Status = res.Status
			}
			return res, res.Status&myproto.SMoreResults != 0, nil
		}
		if binaryRows {
			row, err := DecodeBinaryRow(p, res.Columns)
			if err != nil {
				return nil, false, err
			}
			res.BinRows = append(res.BinRows, row)
		} else {
			row, err := myproto.ParseTextRow(p, int(n))
			if err != nil {
				return nil, false, err
			}
			res.Rows = append(res.Rows, row)
		}
	}
}

// ReadResultForTest reads one text-protocol result; for tests that write the command bytes themselves.
func (c *Client) ReadResultForTest() (*Result, bool, error) { return c.readResult(false) }

// Query sends COM_QUERY and reads every result of the reply. When a statement of
// a multi-statement fails, the results so far are returned together with the error.
func (c *Client) Query(sql string) ([]*Result, error) {
	if err := c.send(myproto.ComQuery, []byte(sql)); err != nil {
		return nil, err
	}
	var out []*Result
	for {
		r, more, err := c.readResult(false)
		if err != nil {
			return out, err
		}
		out = append(out, r)
		if !more {
			return out, nil
		}
	}
}

func (c *Client) Ping() error {
	if err := c.send(myproto.ComPing, nil); err != nil {
		return err
	}
	_, _, err := c.readResult(false)
	return err
}

func (c *Client) UseDB(db string) error {
	if err := c.send(myproto.ComInitDB, []byte(db)); err != nil {
		return err
	}
	_, _, err := c.readResult(false)
	return err
}

func (c *Client) FieldList(table string) ([]myproto.Column, error) {
	if err := c.send(myproto.ComFieldList, append([]byte(table), 0)); err != nil {
		return nil, err
	}
	var cols []myproto.Column
	for {
		p, err := c.read()
		if err != nil {
			return nil, err
		}
		if p[0] == 0xff {
			return nil, myproto.ParseERR(p)
		}
		if isEOF(p) {
			return cols, nil
		}
		col, err := myproto.ParseColumn(p)
		if err != nil {
			return nil, err
		}
		cols = append(cols, col)
	}
}

func (c *Client) Quit() {
	c.send(myproto.ComQuit, nil)
	c.NC.Close()
	c.Dead = true
}

// ---- prepared statements -------------------------------------------------------

type Stmt struct {
	ID      uint32
	Params  int
	Columns int
}

func (c *Client) Prepare(sql string) (*Stmt, error) {
	if err := c.send(myproto.ComStmtPrepare, []byte(sql)); err != nil {
		return nil, err
	}
	p, err := c.read()
	if err != nil {
		return nil, err
	}
	if p[0] == 0xff {
		return nil, myproto.ParseERR(p)
	}
	if p[0] != 0 || len(p) < 12 {
		return nil, fmt.Errorf("malformed prepare reply % x", p)
	}
	st := &Stmt{ID: binary.LittleEndian.Uint32(p[1:]), Columns: int(binary.LittleEndian.Uint16(p[5:])), Params: int(binary.LittleEndian.Uint16(p[7:]))}
	skip := func(n int) error {
		if n == 0 {
			return nil
		}
		for i := 0; i < n; i++ {
			if _, err := c.read(); err != nil {
				return err
			}
		}
		q, err := c.read()
		if err != nil {
			return err
		}
		if !isEOF(q) {
			return fmt.Errorf("prepare reply: expected EOF after %d definitions", n)
		}
		return nil
	}
	if err := skip(st.Params); err != nil {
		return nil, err
	}
	if err := skip(st.Columns); err != nil {
		return nil, err
	}
	return st, nil
}

// Param is one bound parameter of COM_STMT_EXECUTE.
type Param struct {
	Type     byte
	Unsigned bool
	Null     bool
	Data     []byte // already in binary-protocol encoding for Type (without length prefix for strings: added here)
	LongData bool   // sent with COM_STMT_SEND_LONG_DATA: no value in the execute packet
}

func PInt64(v int64) Param {
	b := make([]byte, 8)
	binary.LittleEndian.PutUint64(b, uint64(v))
	return Param{Type: myproto.TLongLong, Data: b}
}
func PUint64(v uint64) Param {
	b := make([]byte, 8)
	binary.LittleEndian.PutUint64(b, v)
	return Param{Type: myproto.TLongLong, Unsigned: true, Data: b}
}
func PInt32(v int32) Param {
	b := make([]byte, 4)
	binary.LittleEndian.PutUint32(b, uint32(v))
	return Param{Type: myproto.TLong, Data: b}
}
func PInt16(v int16) Param {
	return Param{Type: myproto.TShort, Data: []byte{byte(v), byte(uint16(v) >> 8)}}
}
func PInt8(v int8) Param { return Param{Type: myproto.TTiny, Data: []byte{byte(v)}} }
func PDouble(v float64) Param {
	b := make([]byte, 8)
	binary.LittleEndian.PutUint64(b, math.Float64bits(v))
	return Param{Type: myproto.TDouble, Data: b}
}
func PFloat(v float32) Param {
	b := make([]byte, 4)
	binary.LittleEndian.PutUint32(b, math.Float32bits(v))
	return Param{Type: myproto.TFloat, Data: b}
}
func PString(s []byte) Param { return Param{Type: myproto.TVarString, Data: s} }
func PBlob(s []byte) Param   { return Param{Type: myproto.TBlob, Data: s} }
func PNull() Param           { return Param{Type: myproto.TNull, Null: true} }

func isLenEncType(t byte) bool {
	switch t {
	case myproto.TVarchar, myproto.TVarString, myproto.TString, myproto.TBlob, myproto.TTinyBlob, myproto.TMediumBlob, myproto.TLongBlob,
		myproto.TDecimal, myproto.TNewDecimal, myproto.TJSON, myproto.TEnum, myproto.TSet, myproto.TBit, myproto.TGeometry:
		return true
	}
	return false
}

// BuildExecute builds the COM_STMT_EXECUTE payload (without the command byte).
func BuildExecute(id uint32, params []Param, newParamsBound bool) []byte {
	b := make([]byte, 4)
	binary.LittleEndian.PutUint32(b, id)
	b = append(b, 0)          // flags
	b = append(b, 1, 0, 0, 0) // iteration count
	if len(params) > 0 {
		nb := make([]byte, (len(params)+7)/8)
		for i, p := range params {
			if p.Null {
				nb[i/8] |= 1 << (uint(i) % 8)
			}
		}
		b = append(b, nb...)
		if newParamsBound {
			b = append(b, 1)
			for _, p := range params {
				t := p.Type
				f := byte(0)
				if p.Unsigned {
					f = 0x80
				}
				b = append(b, t, f)
			}
		} else {
			b = append(b, 0)
		}
		for _, p := range params {
			if p.Null || p.LongData {
				continue
			}
			if isLenEncType(p.Type) {
				b = myproto.AppendLenStr(b, p.Data)
			} else {
				b = append(b, p.Data...)
			}
		}
	}
	return b
}

// Execute runs a prepared statement and reads every result.
func (c *Client) Execute(st *Stmt, params []Param, newParamsBound bool) ([]*Result, error) {
	return c.ExecuteRaw(BuildExecute(st.ID, params, newParamsBound))
}

func (c *Client) ExecuteRaw(payload []byte) ([]*Result, error) {
	if err := c.send(myproto.ComStmtExecute, payload); err != nil {
		return nil, err
	}
	var out []*Result
	for {
		r, more, err := c.readResult(true)
		if err != nil {
			return out, err
		}
		out = append(out, r)
		if !more {
			return out, nil
		}
	}
}

// SendLongData has no reply.
func (c *Client) SendLongData(id uint32, param uint16, data []byte) error {
	b := make([]byte, 6)
	binary.LittleEndian.PutUint32(b, id)
	binary.LittleEndian.PutUint16(b[4:], param)
	return c.send(myproto.ComStmtSendLongData, append(b, data...))
}

func (c *Client) ResetStmt(id uint32) error {
	b := make([]byte, 4)
	binary.LittleEndian.PutUint32(b, id)
	if err := c.send(myproto.ComStmtReset, b); err != nil {
		return err
	}
	_, _, err := c.readResult(false)
	return err
}

// CloseStmt has no reply.
func (c *Client) CloseStmt(id uint32) error {
	b := make([]byte, 4)
	binary.LittleEndian.PutUint32(b, id)
	return c.send(myproto.ComStmtClose, b)
}

// ---- binary rows ---------------------------------------------------------------

// Value is one decoded column of a binary-protocol row.
type Value struct {
	Null bool
	// exactly one of the following is meaningful, according to Kind
	Kind string // int | uint | float | double | bytes | date | time
	I    int64
	U    uint64
	F    float64
	B    []byte
	Date [7]int // year month day hour minute second micro
	Neg  bool   // time
	Days uint32 // time
}

func (v Value) String() string {
	if v.Null {
		return "NULL"
	}
	switch v.Kind {
	case "int":
		return fmt.Sprint(v.I)
	case "uint":
		return fmt.Sprint(v.U)
	case "float", "double":
		return fmt.Sprint(v.F)
	case "bytes":
		return string(v.B)
	case "date":
		return fmt.Sprintf("%04d-%02d-%02d %02d:%02d:%02d.%06d", v.Date[0], v.Date[1], v.Date[2], v.Date[3], v.Date[4], v.Date[5], v.Date[6])
	case "time":
		s := ""
		if v.Neg {
			s = "-"
		}
		return fmt.Sprintf("%s%dd %02d:%02d:%02d.%06d", s, v.Days, v.Date[3], v.Date[4], v.Date[5], v.Date[6])
	}
	return "?"
}

// DecodeBinaryRow decodes a binary resultset row per the MySQL protocol.
func DecodeBinaryRow(p []byte, cols []myproto.Column) ([]Value, error) {
	if len(p) < 1 || p[0] != 0 {
		return nil, fmt.Errorf("binary row does not start with 0x00")
	}
	n := len(cols)
	nb := (n + 7 + 2) / 8
	if len(p) < 1+nb {
		return nil, fmt.Errorf("binary row shorter than its NULL bitmap")
	}
	bitmap := p[1 : 1+nb]
	pos := 1 + nb
	out := make([]Value, n)
	need := func(k int) error {
		if pos+k > len(p) {
			return fmt.Errorf("binary row truncated at column value (need %d bytes at %d of %d)", k, pos, len(p))
		}
		return nil
	}
	for i, c := range cols {
		if bitmap[(i+2)/8]&(1<<(uint(i+2)%8)) != 0 {
			out[i] = Value{Null: true}
			continue
		}
		uns := c.Flags&myproto.FUnsigned != 0
		switch c.Type {
		case myproto.TTiny:
			if err := need(1); err != nil {
				return nil, err
			}
			if uns {
				out[i] = Value{Kind: "uint", U: uint64(p[pos])}
			} else {
				out[i] = Value{Kind: "int", I: int64(int8(p[pos]))}
			}
			pos++
		case myproto.TShort, myproto.TYear:
			if err := need(2); err != nil {
				return nil, err
			}
			u := binary.LittleEndian.Uint16(p[pos:])
			if uns || c.Type == myproto.TYear {
				out[i] = Value{Kind: "uint", U: uint64(u)}
			} else {
				out[i] = Value{Kind: "int", I: int64(int16(u))}
			}
			pos += 2
		case myproto.TLong, myproto.TInt24:
			if err := need(4); err != nil {
				return nil, err
			}
			u := binary.LittleEndian.Uint32(p[pos:])
			if uns {
				out[i] = Value{Kind: "uint", U: uint64(u)}
			} else {
				out[i] = Value{Kind: "int", I: int64(int32(u))}
			}
			pos += 4
		case myproto.TLongLong:
			if err := need(8); err != nil {
				return nil, err
			}
			u := binary.LittleEndian.Uint64(p[pos:])
			if uns {
				out[i] = Value{Kind: "uint", U: u}
			} else {
				out[i] = Value{Kind: "int", I: int64(u)}
			}
			pos += 8
		case myproto.TFloat:
			if err := need(4); err != nil {
				return nil, err
			}
			out[i] = Value{Kind: "float", F: float64(math.Float32frombits(binary.LittleEndian.Uint32(p[pos:])))}
			pos += 4
		case myproto.TDouble:
			if err := need(8); err != nil {
				return nil, err
			}
			out[i] = Value{Kind: "double", F: math.Float64frombits(binary.LittleEndian.Uint64(p[pos:]))}
			pos += 8
		case myproto.TDate, myproto.TDatetime, myproto.TTimestamp:
			if err := need(1); err != nil {
				return nil, err
			}
			l := int(p[pos])
			pos++
			if err := need(l); err != nil {
				return nil, err
			}
			v := Value{Kind: "date"}
			d := p[pos : pos+l]
			switch l {
			case 0:
			case 4, 7, 11:
				v.Date[0] = int(binary.LittleEndian.Uint16(d))
				v.Date[1], v.Date[2] = int(d[2]), int(d[3])
				if l >= 7 {
					v.Date[3], v.Date[4], v.Date[5] = int(d[4]), int(d[5]), int(d[6])
				}
				if l == 11 {
					v.Date[6] = int(binary.LittleEndian.Uint32(d[7:]))
				}
			default:
				return nil, fmt.Errorf("column %d: invalid date length %d", i, l)
			}
			out[i] = v
			pos += l
		case myproto.TTime:
			if err := need(1); err != nil {
				return nil, err
			}
			l := int(p[pos])
			pos++
			if err := need(l); err != nil {
				return nil, err
			}
			v := Value{Kind: "time"}
			d := p[pos : pos+l]
			switch l {
			case 0:
			case 8, 12:
				v.Neg = d[0] == 1
				v.Days = binary.LittleEndian.Uint32(d[1:])
				v.Date[3], v.Date[4], v.Date[5] = int(d[5]), int(d[6]), int(d[7])
				if l == 12 {
					v.Date[6] = int(binary.LittleEndian.Uint32(d[8:]))
				}
			default:
				return nil, fmt.Errorf("column %d: invalid time length %d", i, l)
			}
			out[i] = v
			pos += l
		default:
			s, null, k := myproto.ReadLenStr(p[pos:])
			if k == 0 || null {
				return nil, fmt.Errorf("column %d: malformed length-encoded value", i)
			}
			out[i] = Value{Kind: "bytes", B: append([]byte{}, s...)}
			pos += k
		}
	}
	if pos != len(p) {
		return nil, fmt.Errorf("binary row has %d trailing bytes", len(p)-pos)
	}
	return out, nil
}
