//go:build verif

package requests

import "net/http"

// VerifSetTransport replaces the transport of the package's HTTP client (the control plane's calls to the
// proxies' admin API) and returns the previous one.
func VerifSetTransport(rt http.RoundTripper) http.RoundTripper {
	old := defaultClient.Transport
	defaultClient.Transport = rt
	return old
}
