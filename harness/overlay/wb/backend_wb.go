//go:build verif

package backend

// White-box accessors for the /verif harness (overlay only).

func VerifBalancerSetNext(dbi *DBInfo, which int, v uint32) {
	for i, b := range []*balancer{dbi.GlobalBalancer, dbi.LocalBalancer, dbi.RemoteBalancer} {
		if b != nil && (which < 0 || which == i) {
			b.nextIndex = v
		}
	}
}

func VerifBalancerQueueLen(dbi *DBInfo, which int) int {
	b := []*balancer{dbi.GlobalBalancer, dbi.LocalBalancer, dbi.RemoteBalancer}[which]
	if b == nil {
		return 0
	}
	return len(b.roundRobinQ)
}
