//go:build verif

package server

import (
	"os"
	"sync"

	"github.com/XiaoMi/Gaea/models"
)

// White-box helpers for the /verif harness (overlay only).

var (
	verifStatsOnce sync.Once
	verifStats     *StatisticManager
	verifStatsErr  error
)

// VerifStats returns the one StatisticManager of this process (prometheus and
// expvar registration can happen once only).
func VerifStats() (*StatisticManager, error) {
	verifStatsOnce.Do(func() {
		dir, err := os.MkdirTemp("", "verif-gaea-log-")
		if err != nil {
			verifStatsErr = err
			return
		}
		cfg := &models.Proxy{Cluster: "sim", Service: "gaea_sim", StatsEnabled: "false", LogPath: dir, LogFileName: "gaea", LogLevel: "fatal", LogOutput: "file", NumCPU: 1}
		verifStats, verifStatsErr = CreateStatisticManager(cfg, nil)
	})
	return verifStats, verifStatsErr
}

// VerifNewManager builds a Manager like CreateManager does, without registering
// metrics again and without the metrics export task.
func VerifNewManager(dc string, nss map[string]*models.Namespace) (*Manager, error) {
	st, err := VerifStats()
	if err != nil {
		return nil, err
	}
	m := NewManager()
	m.statistics = st
	current, _, _ := m.switchIndex.Get()
	m.namespaces[current] = CreateNamespaceManager(dc, nss)
	user, err := CreateUserManager(nss)
	if err != nil {
		return nil, err
	}
	m.users[current] = user
	return m, nil
}

// VerifNamespaceMaxExecuteTime exposes a configuration field the harness uses as a version stamp.
func VerifNamespaceMaxExecuteTime(n *Namespace) int { return n.maxSqlExecuteTime }

// VerifAllNamespaces lists every Namespace object either generation refers to.
func VerifAllNamespaces(m *Manager) []*Namespace {
	var out []*Namespace
	seen := map[*Namespace]bool{}
	for _, g := range m.namespaces {
		if g == nil {
			continue
		}
		for _, n := range g.namespaces {
			if !seen[n] {
				seen[n] = true
				out = append(out, n)
			}
		}
	}
	return out
}
