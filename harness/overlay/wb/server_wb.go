//go:build verif

package server

import (
	"context"
	"net"
	"net/http"
	"os"
	"sync"
	"sync/atomic"
	"time"

	"github.com/XiaoMi/Gaea/backend"
	"github.com/XiaoMi/Gaea/models"
	"github.com/XiaoMi/Gaea/mysql"
	"github.com/XiaoMi/Gaea/util"
	"github.com/XiaoMi/Gaea/util/sync2"
	"github.com/gin-gonic/gin"
	uber_atomic "go.uber.org/atomic"
)

// White-box helpers for the /verif harness (overlay only).

var (
	verifStatsOnce sync.Once
	verifStats     *StatisticManager
	verifStatsErr  error
)

// VerifStats returns the one StatisticManager of this process (prometheus and
// expvar registration can happen once only).
func VerifStats() (*StatisticManager, error) {
	verifStatsOnce.Do(func() {
		dir, err := os.MkdirTemp("", "verif-gaea-log-")
		if err != nil {
			verifStatsErr = err
			return
		}
		cfg := &models.Proxy{Cluster: "sim", Service: "gaea_sim", StatsEnabled: "false", LogPath: dir, LogFileName: "gaea", LogLevel: "fatal", LogOutput: "file", NumCPU: 1}
		verifStats, verifStatsErr = CreateStatisticManager(cfg, nil)
	})
	return verifStats, verifStatsErr
}

// VerifNewManager builds a Manager like CreateManager does, without registering
// metrics again and without the metrics export task.
func VerifNewManager(dc string, nss map[string]*models.Namespace) (*Manager, error) {
	st, err := VerifStats()
	if err != nil {
		return nil, err
	}
	// per-namespace channels of the shared statistics object must belong to the current run
	st.SQLResponsePercentile = make(map[string]*SQLResponse)
	// so must the per-namespace client connection counters: a count leaked by one run must not reach the next
	st.clientConnecions = sync.Map{}
	m := NewManager()
	m.statistics = st
	current, _, _ := m.switchIndex.Get()
	m.namespaces[current] = CreateNamespaceManager(dc, nss)
	user, err := CreateUserManager(nss)
	if err != nil {
		return nil, err
	}
	m.users[current] = user
	return m, nil
}

// VerifClientConnections reads the proxy's count of client connections of a namespace (-1: never counted).
func VerifClientConnections(m *Manager, namespace string) int {
	v, ok := m.statistics.clientConnecions.Load(namespace)
	if !ok {
		return -1
	}
	return int(v.(*uber_atomic.Int32).Load())
}

// VerifNamespaceMaxExecuteTime exposes a configuration field the harness uses as a version stamp.
func VerifNamespaceMaxExecuteTime(n *Namespace) int { return n.maxSqlExecuteTime }

// VerifAllNamespaces lists every Namespace object either generation refers to.
func VerifAllNamespaces(m *Manager) []*Namespace {
	var out []*Namespace
	seen := map[*Namespace]bool{}
	for _, g := range m.namespaces {
		if g == nil {
			continue
		}
		for _, n := range g.namespaces {
			if !seen[n] {
				seen[n] = true
				out = append(out, n)
			}
		}
	}
	return out
}

// VerifNewServer builds a Server the way NewServer does but without a real
// listener, admin HTTP server or log files. It must be called inside the
// simulation (its time wheel goroutine belongs to the run).
func VerifNewServer(m *Manager, sessionTimeoutSec int, authPlugin, serverVersion, listenAddr string, l interface {
	Accept() (net.Conn, error)
	Close() error
	Addr() net.Addr
}) (*Server, error) {
	s := new(Server)
	cfg := &models.Proxy{SessionTimeout: sessionTimeoutSec, ServerVersion: serverVersion, AuthPlugin: authPlugin, ProxyAddr: listenAddr, ProtoType: "tcp"}
	s.ServerConfig = cfg
	s.manager = m
	s.ServerVersion = util.CompactServerVersion(cfg.ServerVersion)
	s.ServerVersionCompareStatus = util.NewVersionCompareStatus(cfg.ServerVersion)
	s.AuthPlugin = cfg.AuthPlugin
	if len(s.AuthPlugin) > 0 {
		DefaultCapability |= mysql.ClientPluginAuth
	}
	s.closed = sync2.NewAtomicBool(false)
	s.listener = l
	s.sessionTimeout = time.Duration(sessionTimeoutSec) * time.Second
	buckets := timeWheelBucketsNum
	if VerifWheelBuckets > 0 {
		buckets = VerifWheelBuckets
	}
	tw, err := util.NewTimeWheel(timeWheelUnit, buckets)
	if err != nil {
		return nil, err
	}
	s.tw = tw
	s.tw.Start()
	return s, nil
}

// VerifWheelBuckets, when positive, replaces the 3600 buckets of the session idle wheel: worlds without client
// sessions (the control-plane world starts several proxies per run) do not pay for building the full wheel.
var VerifWheelBuckets int

// VerifNewAdminHandler builds the admin API of a proxy the way NewAdminServer does (same routes, same
// handlers, same basic auth) without a listener and without registering the proxy in the coordinator; the
// returned handler is the gin engine the control plane's HTTP calls are routed into.
func VerifNewAdminHandler(proxy *Server, cfg *models.Proxy) http.Handler {
	s := new(AdminServer)
	ctx, cancel := context.WithCancel(context.Background())
	s.ctx = ctx
	s.cancel = cancel
	s.exit.C = make(chan struct{})
	s.proxy = proxy
	s.adminUser = cfg.AdminUser
	s.adminPassword = cfg.AdminPassword
	s.configType = cfg.ConfigType
	s.coordinatorAddr = cfg.CoordinatorAddr
	s.coordinatorUsername = cfg.UserName
	s.coordinatorPassword = cfg.Password
	s.coordinatorRoot = cfg.CoordinatorRoot
	s.localNamespaceStoragePath = cfg.LocalNamespaceStoragePath
	s.configFile = cfg.ConfigFile
	gin.SetMode(gin.ReleaseMode)
	s.engine = gin.New()
	s.registerURL()
	return s.engine
}

// VerifSetEncryptKey sets the key a Server decrypts stored namespaces with.
func VerifSetEncryptKey(s *Server, key string) { s.EncryptKey = key }

// VerifServe runs one client connection through the real onConn (handshake, command loop, close).
func VerifServe(s *Server, c net.Conn) { s.onConn(c) }

// VerifStopServer stops the time wheel goroutine.
func VerifStopServer(s *Server) { s.tw.Stop() }

// VerifResetConnID makes client connection ids start from the same value in every run.
func VerifResetConnID() { atomic.StoreUint32(&baseConnID, 10000) }

// VerifNamespaces returns the namespaces of the active generation.
func VerifNamespaces(m *Manager) map[string]*Namespace {
	current, _, _ := m.switchIndex.Get()
	return m.namespaces[current].namespaces
}

// VerifSlices returns the slices of a namespace.
func VerifSlices(n *Namespace) map[string]*backend.Slice { return n.slices }

// VerifConnID orders sessions deterministically (time wheel map keys).
func (cc *Session) VerifConnID() uint32 { return cc.c.GetConnectionID() }
