//go:build verif

package util

// White-box accessors for the /verif harness (overlay only).

func VerifPoolChanLen(rp *ResourcePool) int      { return len(rp.resources) }
func VerifPoolScaleInBusy(rp *ResourcePool) bool { return len(rp.scaleInTodo) > 0 }
func VerifPoolBaseCap(rp *ResourcePool) int64    { return rp.baseCapacity.Get() }
