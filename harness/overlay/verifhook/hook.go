//go:build verif

// Package verifhook is injected into github.com/XiaoMi/Gaea/util/verifhook by
// the /verif build overlay only. It never exists in the repository. Every
// function falls through to the plain behaviour when no simulator is attached.
package verifhook

import (
	"context"
	"fmt"
	"net"
	"reflect"
	"sort"
	"sync"
	"time"
)

// ---- yield points --------------------------------------------------------

// YieldFn is installed by the simulator; nil means "not simulated".
var YieldFn func(site string)

func Yield(site string) {
	if f := YieldFn; f != nil {
		f(site)
	}
}

// ---- mutexes --------------------------------------------------------------

var (
	LockFn    func(mu interface{}, try func() bool, site string)
	UnlockFn  func(mu interface{}, unlock func(), site string)
)

func Lock(mu *sync.Mutex, site string) {
	if f := LockFn; f != nil {
		f(mu, mu.TryLock, site)
		return
	}
	mu.Lock()
}

func Unlock(mu *sync.Mutex, site string) {
	if f := UnlockFn; f != nil {
		f(mu, mu.Unlock, site)
		return
	}
	mu.Unlock()
}

func RWLock(mu *sync.RWMutex, site string) {
	if f := LockFn; f != nil {
		f(mu, mu.TryLock, site)
		return
	}
	mu.Lock()
}

func RWUnlock(mu *sync.RWMutex, site string) {
	if f := UnlockFn; f != nil {
		f(mu, mu.Unlock, site)
		return
	}
	mu.Unlock()
}

func RLock(mu *sync.RWMutex, site string) {
	if f := LockFn; f != nil {
		f(mu, mu.TryRLock, site)
		return
	}
	mu.RLock()
}

func RUnlock(mu *sync.RWMutex, site string) {
	if f := UnlockFn; f != nil {
		f(mu, mu.RUnlock, site)
		return
	}
	mu.RUnlock()
}

// ---- map iteration order --------------------------------------------------

// PermFn returns a permutation choice for n sorted keys (called only for n>1).
// nil means sorted order.
var PermFn func(n int, site string) []int

// RankFn orders keys that have no natural order (interface{} keys).
var RankFn func(k interface{}) string

func rank(k interface{}) string {
	if f := RankFn; f != nil {
		if s := f(k); s != "" {
			return s
		}
	}
	switch v := k.(type) {
	case string:
		return "s:" + v
	case int, int8, int16, int32, int64, uint, uint8, uint16, uint32, uint64:
		return fmt.Sprintf("i:%020d", reflect.ValueOf(v).Convert(reflect.TypeOf(int64(0))).Int()+(1<<62))
	}
	rv := reflect.ValueOf(k)
	if rv.Kind() == reflect.Ptr || rv.Kind() == reflect.Func || rv.Kind() == reflect.Chan {
		panic(fmt.Sprintf("verifhook: no deterministic rank for map key of type %T; register RankFn", k))
	}
	return fmt.Sprintf("v:%T:%v", k, k)
}

func perm(n int, site string) []int {
	if f := PermFn; f != nil && n > 1 {
		return f(n, site)
	}
	return nil
}

// KeysString returns the keys of a map[string]V in simulator-decided order.
func KeysString(m interface{}, site string) []string {
	rv := reflect.ValueOf(m)
	if rv.Kind() != reflect.Map || rv.Len() == 0 {
		return nil
	}
	ks := make([]string, 0, rv.Len())
	for _, k := range rv.MapKeys() {
		ks = append(ks, k.String())
	}
	sort.Strings(ks)
	if p := perm(len(ks), site); p != nil {
		out := make([]string, len(ks))
		for i, j := range p {
			out[i] = ks[j]
		}
		return out
	}
	return ks
}

// KeysInt returns the keys of a map[<integer kind>]V as int64 in order.
func KeysInt(m interface{}, site string) []int64 {
	rv := reflect.ValueOf(m)
	if rv.Kind() != reflect.Map || rv.Len() == 0 {
		return nil
	}
	ks := make([]int64, 0, rv.Len())
	for _, k := range rv.MapKeys() {
		switch k.Kind() {
		case reflect.Uint, reflect.Uint8, reflect.Uint16, reflect.Uint32, reflect.Uint64:
			ks = append(ks, int64(k.Uint()))
		default:
			ks = append(ks, k.Int())
		}
	}
	sort.Slice(ks, func(i, j int) bool { return ks[i] < ks[j] })
	if p := perm(len(ks), site); p != nil {
		out := make([]int64, len(ks))
		for i, j := range p {
			out[i] = ks[j]
		}
		return out
	}
	return ks
}

// KeysAny returns the keys of any map as interface{} values ordered by rank.
func KeysAny(m interface{}, site string) []interface{} {
	rv := reflect.ValueOf(m)
	if rv.Kind() != reflect.Map || rv.Len() == 0 {
		return nil
	}
	type kr struct {
		k interface{}
		r string
	}
	ks := make([]kr, 0, rv.Len())
	for _, k := range rv.MapKeys() {
		ki := k.Interface()
		ks = append(ks, kr{ki, rank(ki)})
	}
	sort.SliceStable(ks, func(i, j int) bool { return ks[i].r < ks[j].r })
	out := make([]interface{}, len(ks))
	if p := perm(len(ks), site); p != nil {
		for i, j := range p {
			out[i] = ks[j].k
		}
		return out
	}
	for i := range ks {
		out[i] = ks[i].k
	}
	return out
}

// ---- network --------------------------------------------------------------

// DialFn, when set, replaces the real dialer.
var DialFn func(ctx context.Context, network, addr string) (net.Conn, error)

func Dial(d *net.Dialer, ctx context.Context, network, addr string) (net.Conn, error) {
	if f := DialFn; f != nil {
		return f(ctx, network, addr)
	}
	return d.DialContext(ctx, network, addr)
}

// TCPLike is what the proxy needs from a *net.TCPConn.
type TCPLike interface {
	net.Conn
	SetNoDelay(bool) error
	SetKeepAlive(bool) error
}

type fakeTCP struct{ net.Conn }

func (fakeTCP) SetNoDelay(bool) error   { return nil }
func (fakeTCP) SetKeepAlive(bool) error { return nil }

// AsTCP keeps a real TCP connection as it is and wraps anything else.
func AsTCP(c net.Conn) TCPLike {
	if t, ok := c.(*net.TCPConn); ok {
		return t
	}
	if t, ok := c.(TCPLike); ok {
		return t
	}
	return fakeTCP{c}
}

// ---- randomness -----------------------------------------------------------

var IntnFn func(n int, site string) int

func Intn(n int, site string, fallback func(int) int) int {
	if f := IntnFn; f != nil {
		return f(n, site)
	}
	return fallback(n)
}

// ---- generic prologue hooks ----------------------------------------------

// Hooks is a registry for prologue hooks keyed by function name.
var Hooks = map[string]interface{}{}

// ---- select ----------------------------------------------------------------

// SelOrderFn returns the order in which the cases of a select are polled.
var SelOrderFn func(n int, site string) []int

func SelOrder(n int, site string) []int {
	if f := SelOrderFn; f != nil {
		return f(n, site)
	}
	return nil
}

// ---- time -------------------------------------------------------------------

// JitterFn returns a small unique offset added to every timer duration so that
// no two timers of a run fire at the same fake instant.
var JitterFn func() time.Duration

func Jitter(d time.Duration) time.Duration {
	if f := JitterFn; f != nil && d > 0 {
		return d + f()
	}
	return d
}

func Sleep(d time.Duration)                         { time.Sleep(Jitter(d)) }
func After(d time.Duration) <-chan time.Time        { return time.After(Jitter(d)) }
func Tick(d time.Duration) <-chan time.Time         { return time.Tick(Jitter(d)) }
func NewTimer(d time.Duration) *time.Timer          { return time.NewTimer(Jitter(d)) }
func NewTicker(d time.Duration) *time.Ticker        { return time.NewTicker(Jitter(d)) }
func AfterFunc(d time.Duration, f func()) *time.Timer { return time.AfterFunc(Jitter(d), f) }

func WithTimeout(ctx context.Context, d time.Duration) (context.Context, context.CancelFunc) {
	return context.WithTimeout(ctx, Jitter(d))
}

func WithDeadline(ctx context.Context, t time.Time) (context.Context, context.CancelFunc) {
	if f := JitterFn; f != nil {
		t = t.Add(f())
	}
	return context.WithDeadline(ctx, t)
}
