package sqlmini

import (
	"fmt"
	"strings"
	"testing"
)

func rowsText(r *Result) string {
	var out []string
	for _, row := range r.Rows {
		var c []string
		for _, v := range row {
			c = append(c, v.String())
		}
		out = append(out, strings.Join(c, ","))
	}
	return strings.Join(out, ";")
}

func TestBasics(t *testing.T) {
	s := NewStore()
	s.Create("db1", "t", []string{"id", "g", "v", "name"})
	must := func(sql string) *Result {
		r, err := s.Exec(sql, "db1")
		if err != nil {
			t.Fatalf("%s: %v", sql, err)
		}
		return r
	}
	must("insert into t (id, g, v, name) values (1, 1, 10, 'a'), (2, 1, 20, 'b'), (3, 2, NULL, 'NULL'), (4, NULL, 5, NULL)")
	must("insert into t set id = 5, g = 2, v = -7, name = 'a+'")
	cases := map[string]string{
		"select id from t where g = 1 order by id desc":                          "2;1",
		"select count(*), sum(v), max(v), min(v) from t":                         "5,28,20,-7",
		"select g, count(*) from t group by g order by g":                        "NULL,1;1,2;2,2",
		"select count(distinct g) from t":                                        "2",
		"select id from t where v is null":                                       "3",
		"select id from t where name = 'NULL'":                                   "3",
		"select id from t where id in (1, 3, 9) and not (id = 3)":                "1",
		"select id from t where id not in (1, 2) order by id":                    "3;4;5",
		"select id from t where id between 2 and 4 and v is not null order by 1": "2;4",
		"select distinct g from t where g is not null order by g":                "1;2",
		"select id from t order by id limit 1, 2":                                "2;3",
		"select id from t where g <> 1 order by id":                              "3;5",
		"select id from `db1`.`t` as x where x.id >= 4 or x.g = 1 order by x.id": "1;2;4;5",
		"select id from t where id = 1 union select id from t where id = 1":      "1",
		"select id from t where id = 1 union all select id from t where id = 1":  "1;1",
		"select sum(v) from t where id > 100":                                    "NULL",
		"select count(*) from t where id > 100":                                  "0",
	}
	for q, want := range cases {
		if got := rowsText(must(q)); got != want {
			t.Errorf("%s: got %s want %s", q, got, want)
		}
	}
	if r := must("update t set v = 1 where g = 1"); r.Affected != 2 {
		t.Errorf("update affected %d", r.Affected)
	}
	if r := must("delete from t where v = 1 or id = 5"); r.Affected != 3 {
		t.Errorf("delete affected %d", r.Affected)
	}
	if got := rowsText(must("select id from t order by id")); got != "3;4" {
		t.Errorf("after delete: %s", got)
	}
	if _, err := s.Exec("insert into t (id) values (3)", "db1"); err == nil {
		t.Errorf("duplicate accepted")
	}
	must("replace into t (id, g) values (3, 9)")
	if got := rowsText(must("select g, v from t where id = 3")); got != "9,NULL" {
		t.Errorf("after replace: %s", got)
	}
	fmt.Println("ok")
}

func TestJoin(t *testing.T) {
	s := NewStore()
	s.NoUnique = true
	s.Create("db1", "a", []string{"id", "v"})
	s.Create("db1", "b", []string{"id", "w"})
	for _, q := range []string{"insert into a (id, v) values (1, 10), (2, 20), (3, 30)", "insert into b (id, w) values (1, 100), (1, 101), (3, 300), (4, 400)"} {
		if _, err := s.Exec(q, "db1"); err != nil {
			t.Fatal(err)
		}
	}
	cases := map[string]string{
		"select a.id, b.w from a join b on a.id = b.id order by a.id, b.w":             "1,100;1,101;3,300",
		"select x.id, y.w from a x, b y where x.id = y.id and y.w > 100 order by y.w":  "1,101;3,300",
		"select a.id, b.w from a left join b on a.id = b.id order by a.id, b.w":        "1,100;1,101;2,NULL;3,300",
		"select count(*), sum(b.w) from a join b on a.id = b.id":                       "3,501",
		"select a.id, count(*) from a join b on a.id = b.id group by a.id order by a.id": "1,2;3,1",
	}
	for q, want := range cases {
		r, err := s.Exec(q, "db1")
		if err != nil {
			t.Errorf("%s: %v", q, err)
			continue
		}
		if got := rowsText(r); got != want {
			t.Errorf("%s: got %s want %s", q, got, want)
		}
	}
}
