// Package sqlmini is the small SQL evaluator of the data-path world: the
// simulated MySQL backends execute the per-shard statements the proxy sends
// with it, and the reference database executes the original statement on the
// union of all shards with the same code, so that evaluator idiosyncrasies
// cancel out and what remains visible is what the proxy adds (routing,
// rewriting, splitting, merging).
//
// Subset: single-table SELECT (projection of columns, *, literals, COUNT / SUM
// / MAX / MIN with and without DISTINCT), WHERE over = <> < <= > >= IN, NOT IN,
// BETWEEN, NOT BETWEEN, IS [NOT] NULL, AND, OR, NOT, GROUP BY, ORDER BY, LIMIT /
// OFFSET, SELECT DISTINCT, UNION [ALL]; INSERT / REPLACE (VALUES and SET forms);
// UPDATE and DELETE with WHERE. Values are NULL, 64-bit integers and byte
// strings. Anything else is an error ("statement rejected"), never a guess.
package sqlmini

import (
	"fmt"
	"sort"
	"strconv"
	"strings"

	"github.com/XiaoMi/Gaea/parser"
	"github.com/XiaoMi/Gaea/parser/ast"
	"github.com/XiaoMi/Gaea/parser/model"
	"github.com/XiaoMi/Gaea/parser/opcode"
	driver "github.com/XiaoMi/Gaea/parser/tidb-types/parser_driver"
)

// Value is NULL, an integer or a string.
type Value struct {
	Null bool
	IsS  bool
	I    int64
	S    string
}

func Null() Value        { return Value{Null: true} }
func Int(i int64) Value  { return Value{I: i} }
func Str(s string) Value { return Value{IsS: true, S: s} }
func (v Value) Text() []byte {
	if v.Null {
		return nil
	}
	if v.IsS {
		return []byte(v.S)
	}
	return []byte(strconv.FormatInt(v.I, 10))
}
func (v Value) String() string {
	if v.Null {
		return "NULL"
	}
	if v.IsS {
		return strconv.Quote(v.S)
	}
	return strconv.FormatInt(v.I, 10)
}

// key is an injective encoding for grouping and DISTINCT.
func (v Value) key() string {
	switch {
	case v.Null:
		return "N"
	case v.IsS:
		return "S" + strconv.Itoa(len(v.S)) + ":" + v.S
	}
	return "I" + strconv.FormatInt(v.I, 10)
}

// Compare orders two non-NULL values of the same class; mixed classes compare integers below strings
// (generators never mix classes in one column; this only keeps sorting total).
func Compare(a, b Value) int {
	switch {
	case a.Null && b.Null:
		return 0
	case a.Null:
		return -1
	case b.Null:
		return 1
	case !a.IsS && !b.IsS:
		switch {
		case a.I < b.I:
			return -1
		case a.I > b.I:
			return 1
		}
		return 0
	case a.IsS && b.IsS:
		return strings.Compare(a.S, b.S)
	case a.IsS:
		// string vs integer: MySQL compares numerically; only canonical integer strings are supported
		if n, err := strconv.ParseInt(a.S, 10, 64); err == nil {
			return Compare(Int(n), b)
		}
		return 1
	default:
		return -Compare(b, a)
	}
}

type Table struct {
	Name string
	// DB is the database the table was created in ("" for virtual tables): a column reference that names a
	// database must name this one, as in MySQL
	DB   string
	Cols []string
	// Kinds, when set, gives the column classes ('i' integer, 's' string): a canonical integer string stored
	// into an integer column becomes that integer, as in MySQL
	Kinds []byte
	Rows  [][]Value
}

func (t *Table) coerce(i int, v Value) Value {
	if t.Kinds != nil && i < len(t.Kinds) && t.Kinds[i] == 'i' && v.IsS && !v.Null {
		if n, err := strconv.ParseInt(v.S, 10, 64); err == nil && strconv.FormatInt(n, 10) == v.S {
			return Int(n)
		}
	}
	return v
}

func (t *Table) col(name string) int {
	for i, c := range t.Cols {
		if strings.EqualFold(c, name) {
			return i
		}
	}
	return -1
}

// Store holds tables keyed by "db.table" (lower case).
type Store struct {
	Tables map[string]*Table
	// NoUnique: the first column is not a primary key (duplicate values are stored as separate rows)
	NoUnique bool
}

func NewStore() *Store { return &Store{Tables: map[string]*Table{}} }

func Key(db, table string) string { return strings.ToLower(db) + "." + strings.ToLower(table) }

func (s *Store) Create(db, table string, cols []string) *Table {
	t := &Table{Name: table, DB: db, Cols: append([]string{}, cols...)}
	s.Tables[Key(db, table)] = t
	return t
}

func (s *Store) Get(db, table string) *Table { return s.Tables[Key(db, table)] }

type Result struct {
	Cols     []string
	Rows     [][]Value
	Affected uint64
	IsQuery  bool
	// Touched lists the tables the statement named, "db.table"
	Touched []string
}

// Exec parses and executes one statement with defaultDB as the current database.
func (s *Store) Exec(sql, defaultDB string) (*Result, error) {
	node, err := parser.ParseSQL(sql)
	if err != nil {
		return nil, fmt.Errorf("syntax: %v", err)
	}
	return s.ExecNode(node, defaultDB)
}

func (s *Store) ExecNode(node ast.StmtNode, defaultDB string) (*Result, error) {
	e := &exec{s: s, db: defaultDB}
	switch n := node.(type) {
	case *ast.SelectStmt:
		return e.sel(n)
	case *ast.UnionStmt:
		return e.union(n)
	case *ast.InsertStmt:
		return e.insert(n)
	case *ast.UpdateStmt:
		return e.update(n)
	case *ast.DeleteStmt:
		return e.del(n)
	}
	return nil, fmt.Errorf("unsupported statement %T", node)
}

type exec struct {
	s       *Store
	db      string
	touched []string
	// srcs describes the sources of the joined (virtual) table of the SELECT in progress; nil for a single table
	srcs []joinSrc
}

// joinSrc is one table of a join inside the virtual table: its columns are Cols[off : off+n].
type joinSrc struct {
	alias, name string
	db          string
	off, n      int
}

func unsupported(what string, a ...interface{}) error {
	return fmt.Errorf("unsupported: "+what, a...)
}

// fromClause resolves the FROM clause of a SELECT: a single table, or inner / left / comma joins of tables,
// which are materialised into a virtual table whose columns are the sources' columns side by side.
func (e *exec) fromClause(refs *ast.TableRefsClause) (*Table, string, error) {
	e.srcs = nil
	if refs == nil || refs.TableRefs == nil {
		return nil, "", unsupported("no table")
	}
	if refs.TableRefs.Right == nil {
		if _, ok := refs.TableRefs.Left.(*ast.Join); !ok {
			return e.table(refs)
		}
	}
	vt, srcs, err := e.join(refs.TableRefs)
	if err != nil {
		return nil, "", err
	}
	e.srcs = srcs
	return vt, "", nil
}

func (e *exec) join(j *ast.Join) (*Table, []joinSrc, error) {
	side := func(n ast.ResultSetNode) (*Table, []joinSrc, error) {
		switch x := n.(type) {
		case *ast.Join:
			if x.Right == nil {
				return e.joinSide(x.Left)
			}
			return e.join(x)
		default:
			return e.joinSide(n)
		}
	}
	lt, ls, err := side(j.Left)
	if err != nil {
		return nil, nil, err
	}
	if j.Right == nil {
		return lt, ls, nil
	}
	rt, rs, err := side(j.Right)
	if err != nil {
		return nil, nil, err
	}
	if j.Using != nil || j.NaturalJoin || j.StraightJoin {
		return nil, nil, unsupported("using / natural / straight join")
	}
	vt := &Table{Cols: append(append([]string{}, lt.Cols...), rt.Cols...)}
	srcs := append([]joinSrc{}, ls...)
	for _, x := range rs {
		x.off += len(lt.Cols)
		srcs = append(srcs, x)
	}
	saved := e.srcs
	e.srcs = srcs
	defer func() { e.srcs = saved }()
	nulls := make([]Value, len(rt.Cols))
	for i := range nulls {
		nulls[i] = Null()
	}
	for _, l := range lt.Rows {
		matched := false
		for _, r := range rt.Rows {
			row := append(append([]Value{}, l...), r...)
			ok := 1
			if j.On != nil {
				var err error
				ok, err = e.cond(j.On.Expr, &rowCtx{vt, "", row})
				if err != nil {
					return nil, nil, err
				}
			}
			if ok == 1 {
				matched = true
				vt.Rows = append(vt.Rows, row)
			}
		}
		if !matched && j.Tp == ast.LeftJoin {
			vt.Rows = append(vt.Rows, append(append([]Value{}, l...), nulls...))
		}
	}
	if j.Tp == ast.RightJoin {
		return nil, nil, unsupported("right join")
	}
	return vt, srcs, nil
}

func (e *exec) joinSide(n ast.ResultSetNode) (*Table, []joinSrc, error) {
	src, ok := n.(*ast.TableSource)
	if !ok {
		return nil, nil, unsupported("table reference %T", n)
	}
	tn, ok := src.Source.(*ast.TableName)
	if !ok {
		return nil, nil, unsupported("derived table")
	}
	t, alias, err := e.tableName(tn, src.AsName.O)
	if err != nil {
		return nil, nil, err
	}
	return t, []joinSrc{{alias: alias, name: t.Name, db: t.DB, off: 0, n: len(t.Cols)}}, nil
}

// table resolves the single table of a FROM / UPDATE / DELETE clause and its alias.
func (e *exec) table(refs *ast.TableRefsClause) (*Table, string, error) {
	if refs == nil || refs.TableRefs == nil {
		return nil, "", unsupported("no table")
	}
	j := refs.TableRefs
	if j.Right != nil {
		return nil, "", unsupported("join")
	}
	src, ok := j.Left.(*ast.TableSource)
	if !ok {
		return nil, "", unsupported("table reference %T", j.Left)
	}
	tn, ok := src.Source.(*ast.TableName)
	if !ok {
		return nil, "", unsupported("derived table")
	}
	return e.tableName(tn, src.AsName.O)
}

func (e *exec) tableName(tn *ast.TableName, alias string) (*Table, string, error) {
	db := tn.Schema.O
	if db == "" {
		db = e.db
	}
	t := e.s.Get(db, tn.Name.O)
	e.touched = append(e.touched, Key(db, tn.Name.O))
	if t == nil {
		return nil, "", fmt.Errorf("table %s.%s doesn't exist", db, tn.Name.O)
	}
	if alias == "" {
		alias = tn.Name.O
	}
	return t, alias, nil
}

type rowCtx struct {
	t     *Table
	alias string
	row   []Value
}

func litValue(v ast.ValueExpr) (Value, error) {
	ve, ok := v.(*driver.ValueExpr)
	if !ok {
		return Value{}, unsupported("literal %T", v)
	}
	switch x := ve.GetValue().(type) {
	case nil:
		return Null(), nil
	case int64:
		return Int(x), nil
	case uint64:
		if x > 1<<63-1 {
			return Value{}, unsupported("integer literal out of range")
		}
		return Int(int64(x)), nil
	case string:
		return Str(x), nil
	case []byte:
		return Str(string(x)), nil
	}
	return Value{}, unsupported("literal kind %T", ve.GetValue())
}

// tri is three-valued logic: 1 true, 0 false, -1 unknown.
func (e *exec) cond(x ast.ExprNode, rc *rowCtx) (int, error) {
	switch n := x.(type) {
	case nil:
		return 1, nil
	case *ast.ParenthesesExpr:
		return e.cond(n.Expr, rc)
	case *ast.BinaryOperationExpr:
		switch n.Op {
		case opcode.LogicAnd, opcode.LogicOr:
			a, err := e.cond(n.L, rc)
			if err != nil {
				return 0, err
			}
			b, err := e.cond(n.R, rc)
			if err != nil {
				return 0, err
			}
			if n.Op == opcode.LogicAnd {
				switch {
				case a == 0 || b == 0:
					return 0, nil
				case a == 1 && b == 1:
					return 1, nil
				}
				return -1, nil
			}
			switch {
			case a == 1 || b == 1:
				return 1, nil
			case a == 0 && b == 0:
				return 0, nil
			}
			return -1, nil
		case opcode.EQ, opcode.NE, opcode.LT, opcode.LE, opcode.GT, opcode.GE:
			a, err := e.scalar(n.L, rc)
			if err != nil {
				return 0, err
			}
			b, err := e.scalar(n.R, rc)
			if err != nil {
				return 0, err
			}
			if a.Null || b.Null {
				return -1, nil
			}
			c := Compare(a, b)
			ok := false
			switch n.Op {
			case opcode.EQ:
				ok = c == 0
			case opcode.NE:
				ok = c != 0
			case opcode.LT:
				ok = c < 0
			case opcode.LE:
				ok = c <= 0
			case opcode.GT:
				ok = c > 0
			case opcode.GE:
				ok = c >= 0
			}
			return b2t(ok), nil
		}
		return 0, unsupported("operator %v", n.Op)
	case *ast.UnaryOperationExpr:
		if n.Op == opcode.Not {
			a, err := e.cond(n.V, rc)
			if err != nil {
				return 0, err
			}
			if a == -1 {
				return -1, nil
			}
			return 1 - a, nil
		}
		return 0, unsupported("unary operator %v in a condition", n.Op)
	case *ast.PatternInExpr:
		if n.Sel != nil {
			return 0, unsupported("IN subquery")
		}
		a, err := e.scalar(n.Expr, rc)
		if err != nil {
			return 0, err
		}
		if a.Null {
			return -1, nil
		}
		found, sawNull := false, false
		for _, it := range n.List {
			b, err := e.scalar(it, rc)
			if err != nil {
				return 0, err
			}
			if b.Null {
				sawNull = true
				continue
			}
			if Compare(a, b) == 0 {
				found = true
			}
		}
		res := -1
		switch {
		case found:
			res = 1
		case !sawNull:
			res = 0
		}
		if n.Not && res != -1 {
			res = 1 - res
		}
		return res, nil
	case *ast.BetweenExpr:
		a, err := e.scalar(n.Expr, rc)
		if err != nil {
			return 0, err
		}
		lo, err := e.scalar(n.Left, rc)
		if err != nil {
			return 0, err
		}
		hi, err := e.scalar(n.Right, rc)
		if err != nil {
			return 0, err
		}
		if a.Null || lo.Null || hi.Null {
			return -1, nil
		}
		in := Compare(a, lo) >= 0 && Compare(a, hi) <= 0
		if n.Not {
			in = !in
		}
		return b2t(in), nil
	case *ast.IsNullExpr:
		a, err := e.scalar(n.Expr, rc)
		if err != nil {
			return 0, err
		}
		return b2t(a.Null != n.Not), nil
	case ast.ValueExpr:
		v, err := litValue(n)
		if err != nil {
			return 0, err
		}
		if v.Null {
			return -1, nil
		}
		if v.IsS {
			return 0, unsupported("string as a condition")
		}
		return b2t(v.I != 0), nil
	}
	return 0, unsupported("condition %T", x)
}

func b2t(b bool) int {
	if b {
		return 1
	}
	return 0
}

func (e *exec) scalar(x ast.ExprNode, rc *rowCtx) (Value, error) {
	switch n := x.(type) {
	case *ast.ParenthesesExpr:
		return e.scalar(n.Expr, rc)
	case ast.ValueExpr:
		return litValue(n)
	case *ast.ColumnNameExpr:
		return e.column(n.Name, rc)
	case *ast.UnaryOperationExpr:
		if n.Op == opcode.Minus {
			v, err := e.scalar(n.V, rc)
			if err != nil || v.Null {
				return v, err
			}
			if v.IsS {
				return Value{}, unsupported("minus on a string")
			}
			return Int(-v.I), nil
		}
	}
	switch n := x.(type) {
	case *ast.BinaryOperationExpr:
		if n.Op == opcode.Plus || n.Op == opcode.Minus {
			a, err := e.scalar(n.L, rc)
			if err != nil {
				return a, err
			}
			b, err := e.scalar(n.R, rc)
			if err != nil {
				return b, err
			}
			if a.Null || b.Null {
				return Null(), nil
			}
			if a.IsS || b.IsS {
				return Value{}, unsupported("arithmetic on strings")
			}
			if n.Op == opcode.Plus {
				return Int(a.I + b.I), nil
			}
			return Int(a.I - b.I), nil
		}
	case *ast.FuncCallExpr:
		if len(n.Args) == 1 {
			a, err := e.scalar(n.Args[0], rc)
			if err != nil {
				return a, err
			}
			switch n.FnName.L {
			case "abs":
				if a.Null || a.IsS {
					return a, nil
				}
				if a.I < 0 {
					return Int(-a.I), nil
				}
				return a, nil
			case "concat":
				if a.Null {
					return a, nil
				}
				return Str(string(a.Text())), nil
			}
		}
	}
	return Value{}, unsupported("expression %T", x)
}

func (e *exec) column(c *ast.ColumnName, rc *rowCtx) (Value, error) {
	if rc == nil {
		return Value{}, unsupported("column without a row")
	}
	if e.srcs != nil && rc.t.Name == "" {
		// a joined row: resolve through the sources
		for _, src := range e.srcs {
			if c.Table.O != "" && !strings.EqualFold(c.Table.O, src.alias) && !strings.EqualFold(c.Table.O, src.name) {
				continue
			}
			if c.Schema.O != "" && src.db != "" && !strings.EqualFold(c.Schema.O, src.db) {
				continue
			}
			for i := src.off; i < src.off+src.n; i++ {
				if strings.EqualFold(rc.t.Cols[i], c.Name.O) {
					return rc.row[i], nil
				}
			}
		}
		return Value{}, fmt.Errorf("unknown column %q.%q", c.Table.O, c.Name.O)
	}
	if c.Table.O != "" && !strings.EqualFold(c.Table.O, rc.alias) && !strings.EqualFold(c.Table.O, rc.t.Name) {
		return Value{}, fmt.Errorf("unknown table %q in column reference", c.Table.O)
	}
	if c.Schema.O != "" && rc.t.DB != "" && !strings.EqualFold(c.Schema.O, rc.t.DB) {
		return Value{}, fmt.Errorf("unknown table %q.%q in column reference (the table is in database %q)", c.Schema.O, c.Table.O, rc.t.DB)
	}
	i := rc.t.col(c.Name.O)
	if i < 0 {
		return Value{}, fmt.Errorf("unknown column %q", c.Name.O)
	}
	return rc.row[i], nil
}

// agg is one aggregate of the select list.
type agg struct {
	fn       string
	distinct bool
	arg      ast.ExprNode // nil: COUNT(*)
}

type outCol struct {
	name string
	expr ast.ExprNode
	ag   *agg
	star bool
}

func (e *exec) sel(n *ast.SelectStmt) (*Result, error) {
	if n.From == nil {
		return nil, unsupported("select without from")
	}
	if n.Having != nil {
		return nil, unsupported("having")
	}
	t, alias, err := e.fromClause(n.From)
	if err != nil {
		return nil, err
	}
	defer func() { e.srcs = nil }()
	// output columns
	var outs []outCol
	hasAgg := false
	for _, f := range n.Fields.Fields {
		if f.WildCard != nil {
			for _, c := range t.Cols {
				outs = append(outs, outCol{name: c, expr: &ast.ColumnNameExpr{Name: &ast.ColumnName{Name: model.NewCIStr(c)}}})
			}
			continue
		}
		name := f.AsName.O
		if name == "" {
			name = strings.TrimSpace(f.Text())
		}
		if a, ok := f.Expr.(*ast.AggregateFuncExpr); ok {
			ag := &agg{fn: strings.ToLower(a.F), distinct: a.Distinct}
			switch ag.fn {
			case "count", "sum", "max", "min":
			default:
				return nil, unsupported("aggregate %s", a.F)
			}
			if len(a.Args) != 1 {
				return nil, unsupported("aggregate with %d arguments", len(a.Args))
			}
			if v, ok := a.Args[0].(ast.ValueExpr); ok && ag.fn == "count" {
				if lv, err := litValue(v); err == nil && !lv.Null {
					ag.arg = nil // COUNT(*) / COUNT(1)
				} else {
					ag.arg = a.Args[0]
				}
			} else {
				ag.arg = a.Args[0]
			}
			outs = append(outs, outCol{name: name, ag: ag, expr: f.Expr})
			hasAgg = true
			continue
		}
		outs = append(outs, outCol{name: name, expr: f.Expr})
	}
	// filter
	var rows [][]Value
	for _, r := range t.Rows {
		ok, err := e.cond(n.Where, &rowCtx{t, alias, r})
		if err != nil {
			return nil, err
		}
		if ok == 1 {
			rows = append(rows, r)
		}
	}
	res := &Result{IsQuery: true}
	for _, o := range outs {
		res.Cols = append(res.Cols, o.name)
	}
	type outRow struct {
		vals []Value
		src  []Value // a source row of the group, for ORDER BY on non-projected columns
	}
	var out []outRow
	if hasAgg || n.GroupBy != nil {
		// groups in order of first appearance
		var order []string
		groups := map[string][][]Value{}
		for _, r := range rows {
			k := ""
			if n.GroupBy != nil {
				for _, it := range n.GroupBy.Items {
					v, err := e.scalar(it.Expr, &rowCtx{t, alias, r})
					if err != nil {
						return nil, err
					}
					k += v.key() + "|"
				}
			}
			if _, ok := groups[k]; !ok {
				order = append(order, k)
			}
			groups[k] = append(groups[k], r)
		}
		if n.GroupBy == nil && len(order) == 0 {
			order = append(order, "")
			groups[""] = nil
		}
		for _, k := range order {
			g := groups[k]
			var vals []Value
			for _, o := range outs {
				if o.ag != nil {
					v, err := e.aggregate(o.ag, g, t, alias)
					if err != nil {
						return nil, err
					}
					vals = append(vals, v)
					continue
				}
				if len(g) == 0 {
					vals = append(vals, Null())
					continue
				}
				v, err := e.scalar(o.expr, &rowCtx{t, alias, g[0]})
				if err != nil {
					return nil, err
				}
				vals = append(vals, v)
			}
			var src []Value
			if len(g) > 0 {
				src = g[0]
			}
			out = append(out, outRow{vals, src})
		}
	} else {
		for _, r := range rows {
			var vals []Value
			for _, o := range outs {
				v, err := e.scalar(o.expr, &rowCtx{t, alias, r})
				if err != nil {
					return nil, err
				}
				vals = append(vals, v)
			}
			out = append(out, outRow{vals, r})
		}
	}
	if n.Distinct {
		seen := map[string]bool{}
		var d []outRow
		for _, r := range out {
			k := ""
			for _, v := range r.vals {
				k += v.key() + "|"
			}
			if !seen[k] {
				seen[k] = true
				d = append(d, r)
			}
		}
		out = d
	}
	if n.OrderBy != nil {
		type keyed struct {
			r    outRow
			keys []Value
		}
		ks := make([]keyed, len(out))
		for i, r := range out {
			ks[i].r = r
			for _, it := range n.OrderBy.Items {
				v, err := e.orderKey(it.Expr, outs, r.vals, r.src, t, alias)
				if err != nil {
					return nil, err
				}
				ks[i].keys = append(ks[i].keys, v)
			}
		}
		sort.SliceStable(ks, func(i, j int) bool {
			for k, it := range n.OrderBy.Items {
				c := Compare(ks[i].keys[k], ks[j].keys[k])
				if c == 0 {
					continue
				}
				if it.Desc {
					return c > 0
				}
				return c < 0
			}
			return false
		})
		for i := range ks {
			out[i] = ks[i].r
		}
	}
	if n.Limit != nil {
		off, cnt := int64(0), int64(-1)
		if n.Limit.Offset != nil {
			v, err := e.scalar(n.Limit.Offset, nil)
			if err != nil {
				return nil, err
			}
			off = v.I
		}
		if n.Limit.Count != nil {
			v, err := e.scalar(n.Limit.Count, nil)
			if err != nil {
				return nil, err
			}
			cnt = v.I
		}
		if off > int64(len(out)) {
			off = int64(len(out))
		}
		out = out[off:]
		if cnt >= 0 && cnt < int64(len(out)) {
			out = out[:cnt]
		}
	}
	for _, r := range out {
		res.Rows = append(res.Rows, r.vals)
	}
	res.Touched = e.touched
	return res, nil
}

// orderKey evaluates an ORDER BY item: an output alias / column of the select list first, else a source column.
func (e *exec) orderKey(x ast.ExprNode, outs []outCol, vals, src []Value, t *Table, alias string) (Value, error) {
	if c, ok := x.(*ast.ColumnNameExpr); ok {
		for i, o := range outs {
			if strings.EqualFold(o.name, c.Name.Name.O) && (c.Name.Table.O == "" || o.ag != nil) {
				return vals[i], nil
			}
		}
		for i, o := range outs {
			if oc, ok := o.expr.(*ast.ColumnNameExpr); ok && o.ag == nil && strings.EqualFold(oc.Name.Name.O, c.Name.Name.O) {
				return vals[i], nil
			}
		}
		if src == nil {
			return Null(), nil
		}
		return e.column(c.Name, &rowCtx{t, alias, src})
	}
	if a, ok := x.(*ast.AggregateFuncExpr); ok {
		// ORDER BY COUNT(*) etc.: find the same aggregate in the select list by its text
		txt := restoreExpr(a)
		for i, o := range outs {
			if o.ag != nil && (strings.EqualFold(o.name, txt) || o.expr != nil && strings.EqualFold(restoreExpr(o.expr), txt)) {
				return vals[i], nil
			}
		}
		return Value{}, unsupported("order by an aggregate that is not selected")
	}
	if p, ok := x.(*ast.PositionExpr); ok {
		if p.N >= 1 && p.N <= len(vals) {
			return vals[p.N-1], nil
		}
		return Value{}, fmt.Errorf("order by position %d out of range", p.N)
	}
	if v, ok := x.(ast.ValueExpr); ok {
		lv, err := litValue(v)
		if err == nil && !lv.IsS && !lv.Null && lv.I >= 1 && int(lv.I) <= len(vals) {
			return vals[lv.I-1], nil
		}
	}
	return Value{}, unsupported("order by %T", x)
}

func restoreExpr(n ast.Node) string {
	s, err := parser.NodeToStringWithoutQuote(n)
	if err != nil {
		return ""
	}
	return s
}

func (e *exec) aggregate(a *agg, g [][]Value, t *Table, alias string) (Value, error) {
	var vals []Value
	for _, r := range g {
		if a.arg == nil {
			vals = append(vals, Int(1))
			continue
		}
		v, err := e.scalar(a.arg, &rowCtx{t, alias, r})
		if err != nil {
			return Value{}, err
		}
		if !v.Null {
			vals = append(vals, v)
		}
	}
	if a.distinct {
		seen := map[string]bool{}
		var d []Value
		for _, v := range vals {
			if !seen[v.key()] {
				seen[v.key()] = true
				d = append(d, v)
			}
		}
		vals = d
	}
	switch a.fn {
	case "count":
		return Int(int64(len(vals))), nil
	case "sum":
		if len(vals) == 0 {
			return Null(), nil
		}
		var s int64
		for _, v := range vals {
			if v.IsS {
				return Value{}, unsupported("sum over strings")
			}
			s += v.I
		}
		return Int(s), nil
	case "max", "min":
		if len(vals) == 0 {
			return Null(), nil
		}
		best := vals[0]
		for _, v := range vals[1:] {
			c := Compare(v, best)
			if (a.fn == "max" && c > 0) || (a.fn == "min" && c < 0) {
				best = v
			}
		}
		return best, nil
	}
	return Value{}, unsupported("aggregate %s", a.fn)
}

func (e *exec) union(n *ast.UnionStmt) (*Result, error) {
	var res *Result
	for i, s := range n.SelectList.Selects {
		r, err := e.sel(s)
		if err != nil {
			return nil, err
		}
		if res == nil {
			res = r
			continue
		}
		if len(r.Cols) != len(res.Cols) {
			return nil, fmt.Errorf("union branches have different column counts")
		}
		res.Rows = append(res.Rows, r.Rows...)
		if s.IsAfterUnionDistinct && i > 0 {
			seen := map[string]bool{}
			var d [][]Value
			for _, row := range res.Rows {
				k := ""
				for _, v := range row {
					k += v.key() + "|"
				}
				if !seen[k] {
					seen[k] = true
					d = append(d, row)
				}
			}
			res.Rows = d
		}
	}
	if n.OrderBy != nil || n.Limit != nil {
		return nil, unsupported("order by / limit on a union")
	}
	res.Touched = e.touched
	return res, nil
}

func (e *exec) insert(n *ast.InsertStmt) (*Result, error) {
	if n.Select != nil {
		return nil, unsupported("insert ... select")
	}
	t, _, err := e.table(n.Table)
	if err != nil {
		return nil, err
	}
	var rows [][]Value
	if len(n.Setlist) > 0 {
		row := make([]Value, len(t.Cols))
		for i := range row {
			row[i] = Null()
		}
		for _, a := range n.Setlist {
			i := t.col(a.Column.Name.O)
			if i < 0 {
				return nil, fmt.Errorf("unknown column %q", a.Column.Name.O)
			}
			v, err := e.scalar(a.Expr, nil)
			if err != nil {
				return nil, err
			}
			row[i] = t.coerce(i, v)
		}
		rows = append(rows, row)
	} else {
		var idx []int
		if len(n.Columns) == 0 {
			for i := range t.Cols {
				idx = append(idx, i)
			}
		}
		for _, c := range n.Columns {
			i := t.col(c.Name.O)
			if i < 0 {
				return nil, fmt.Errorf("unknown column %q", c.Name.O)
			}
			idx = append(idx, i)
		}
		for _, l := range n.Lists {
			if len(l) != len(idx) {
				return nil, fmt.Errorf("column count doesn't match value count")
			}
			row := make([]Value, len(t.Cols))
			for i := range row {
				row[i] = Null()
			}
			for k, x := range l {
				v, err := e.scalar(x, nil)
				if err != nil {
					return nil, err
				}
				row[idx[k]] = t.coerce(idx[k], v)
			}
			rows = append(rows, row)
		}
	}
	// the first column is the primary key
	res := &Result{Touched: e.touched}
	for _, row := range rows {
		dup := -1
		for i, r := range t.Rows {
			if !e.s.NoUnique && !row[0].Null && !r[0].Null && Compare(r[0], row[0]) == 0 {
				dup = i
			}
		}
		switch {
		case dup < 0:
			t.Rows = append(t.Rows, row)
			res.Affected++
		case n.IsReplace:
			t.Rows[dup] = row
			res.Affected += 2
		case len(n.OnDuplicate) > 0:
			for _, a := range n.OnDuplicate {
				i := t.col(a.Column.Name.O)
				if i < 0 {
					return nil, fmt.Errorf("unknown column %q", a.Column.Name.O)
				}
				v, err := e.scalar(a.Expr, &rowCtx{t, t.Name, t.Rows[dup]})
				if err != nil {
					return nil, err
				}
				t.Rows[dup][i] = v
			}
			res.Affected += 2
		default:
			return nil, fmt.Errorf("Duplicate entry '%s' for key 'PRIMARY'", row[0].Text())
		}
	}
	return res, nil
}

func (e *exec) update(n *ast.UpdateStmt) (*Result, error) {
	// ORDER BY without LIMIT does not change which rows an UPDATE touches
	if n.Limit != nil {
		return nil, unsupported("update with limit")
	}
	t, alias, err := e.table(n.TableRefs)
	if err != nil {
		return nil, err
	}
	res := &Result{Touched: e.touched}
	for _, r := range t.Rows {
		ok, err := e.cond(n.Where, &rowCtx{t, alias, r})
		if err != nil {
			return nil, err
		}
		if ok != 1 {
			continue
		}
		changed := false
		type set struct {
			i int
			v Value
		}
		var sets []set
		for _, a := range n.List {
			i := t.col(a.Column.Name.O)
			if i < 0 {
				return nil, fmt.Errorf("unknown column %q", a.Column.Name.O)
			}
			v, err := e.scalar(a.Expr, &rowCtx{t, alias, r})
			if err != nil {
				return nil, err
			}
			sets = append(sets, set{i, t.coerce(i, v)})
		}
		for _, s := range sets {
			if r[s.i].key() != s.v.key() {
				changed = true
			}
			r[s.i] = s.v
		}
		if changed {
			res.Affected++
		}
	}
	return res, nil
}

func (e *exec) del(n *ast.DeleteStmt) (*Result, error) {
	// ORDER BY without LIMIT does not change which rows a DELETE removes
	if n.Limit != nil || n.IsMultiTable {
		return nil, unsupported("delete with limit / several tables")
	}
	t, alias, err := e.table(n.TableRefs)
	if err != nil {
		return nil, err
	}
	res := &Result{Touched: e.touched}
	var keep [][]Value
	for _, r := range t.Rows {
		ok, err := e.cond(n.Where, &rowCtx{t, alias, r})
		if err != nil {
			return nil, err
		}
		if ok == 1 {
			res.Affected++
			continue
		}
		keep = append(keep, r)
	}
	t.Rows = keep
	return res, nil
}
