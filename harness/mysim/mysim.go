// Package mysim is the simulated MySQL server of the W1 world: the server side
// of the wire protocol (myproto) over simnet connections, a per-connection
// session-state model, a statement log, scripted faults, and a pluggable
// executor (canned replies by default, the sqlmini evaluator for the data-path
// properties).
package mysim

import (
	"bytes"
	"fmt"
	"sort"
	"strings"
	"time"

	"github.com/XiaoMi/Gaea/parser"
	"github.com/XiaoMi/Gaea/parser/ast"
	"github.com/XiaoMi/Gaea/parser/format"
	"github.com/XiaoMi/Gaea/util/verifhook"

	"verif/harness/myproto"
	"verif/harness/simnet"
)

type Cluster struct {
	Net      *simnet.Net
	Now      func() time.Duration
	Logf     func(format string, a ...interface{})
	Backends map[string]*Backend
	Log      []*Stmt
	nextConn uint32
	// Exec, when set, is asked first for every COM_QUERY that is not session
	// control; it returns nil to fall through to the canned behaviour.
	Exec func(c *Conn, st *Stmt) *Reply
	// Fault, when set, may turn any command into an error, a delay or a drop.
	Fault func(c *Conn, st *Stmt) *FaultAction
	// OnStmt observes every command after the session model was updated.
	OnStmt func(c *Conn, st *Stmt)
	// OnReceive runs when a command has been read, before anything else.
	OnReceive func(c *Conn, st *Stmt)
	Salt      byte
}

type Backend struct {
	Addr    string
	Slice   string
	Role    string // master | slave | statistic-slave
	Version string
	Conns   []*Conn
	cl      *Cluster
}

type Conn struct {
	ID         uint32
	B          *Backend
	pc         *myproto.PacketConn
	nc         *simnet.Conn
	User       string
	DB         string
	Autocommit bool
	InTx       bool
	Charset    string
	Collation  string
	Vars       map[string]string // session system variables that differ from the default
	UserVars   map[string]string
	Savepoints []string
	Closed     bool
	Stmts      int
	TxStmts    int
	// Tag is free for the harness (e.g. the client a transaction belongs to).
	Tag    string
	killCh chan struct{} // KILL QUERY interrupts a statement that is still executing (a delay fault)
}

// Snapshot is the session state a statement executed under.
type Snapshot struct {
	DB         string
	Autocommit bool
	InTx       bool
	Charset    string
	Collation  string
	Vars       map[string]string
	UserVars   map[string]string
}

type Stmt struct {
	Ev      int64 // global event stamp given by the harness (OnReceive)
	Seq     int
	At      time.Duration
	Backend string
	Slice   string
	Role    string
	ConnID  uint32
	Cmd     string // query | initdb | ping | fieldlist | quit
	SQL     string
	Kind    string // begin commit rollback set-autocommit set use select insert update delete replace show kill savepoint other ddl
	Before  Snapshot
	Outcome string // ok | err:<code> | rows:<n> | dropped
	Node    ast.StmtNode
}

type Reply struct {
	Err      *myproto.ServerError
	Affected uint64
	InsertID uint64
	Info     string
	Columns  []myproto.Column
	Rows     [][][]byte
	// RowGen streams rows without materialising them (large results).
	RowGen func(i int) [][]byte
	NRows  int
	// CutAfter > 0: the connection is reset (CutReset) or closed after that many rows were written (a backend dying mid-result).
	CutAfter int
	CutReset bool
	// StallAfter > 0: the backend pauses for StallFor after that many rows.
	StallAfter int
	StallFor   time.Duration
	// Next: a further result of the same statement (CALL of a procedure with several selects): every result but
	// the last carries SERVER_MORE_RESULTS_EXISTS. StallNext: the backend pauses that long before it sends Next.
	Next      *Reply
	StallNext time.Duration
}

type FaultAction struct {
	Err   *myproto.ServerError
	Delay time.Duration
	Drop  bool // close the connection instead of answering
	Reset bool // reset the connection instead of answering
	// AfterExec: the statement takes effect and then the reply is lost (ambiguous outcome)
	AfterExec bool
}

func NewCluster(n *simnet.Net, now func() time.Duration, logf func(string, ...interface{})) *Cluster {
	return &Cluster{Net: n, Now: now, Logf: logf, Backends: map[string]*Backend{}, nextConn: 100}
}

// AddBackend registers a listening backend. addr is the dial address (without the #dc suffix).
func (cl *Cluster) AddBackend(addr, slice, role string) *Backend {
	b := &Backend{Addr: addr, Slice: slice, Role: role, Version: "5.7.25-sim", cl: cl}
	cl.Backends[addr] = b
	cl.Net.Listen(addr, b.serve)
	return b
}

// handshakeCollations: the collation id in the login packet selects the session's character set.
var handshakeCollations = map[byte][2]string{
	8: {"latin1", "latin1_swedish_ci"}, 28: {"gbk", "gbk_chinese_ci"}, 33: {"utf8", "utf8_general_ci"}, 45: {"utf8mb4", "utf8mb4_general_ci"},
	46: {"utf8mb4", "utf8mb4_bin"}, 63: {"binary", "binary"}, 83: {"utf8", "utf8_bin"}, 224: {"utf8mb4", "utf8mb4_unicode_ci"}, 255: {"utf8mb4", "utf8mb4_0900_ai_ci"},
}

// Kill closes the connection from the server side (wait_timeout, failover, an operator's KILL).
func (c *Conn) Kill() { c.nc.Close() }

func (c *Conn) snapshot() Snapshot {
	s := Snapshot{DB: c.DB, Autocommit: c.Autocommit, InTx: c.InTx, Charset: c.Charset, Collation: c.Collation, Vars: map[string]string{}, UserVars: map[string]string{}}
	for k, v := range c.Vars {
		s.Vars[k] = v
	}
	for k, v := range c.UserVars {
		s.UserVars[k] = v
	}
	return s
}

func (s Snapshot) String() string {
	var ks []string
	for k, v := range s.Vars {
		ks = append(ks, k+"="+v)
	}
	for k, v := range s.UserVars {
		ks = append(ks, k+"="+v)
	}
	sort.Strings(ks)
	return fmt.Sprintf("db=%s ac=%v tx=%v cs=%s/%s %v", s.DB, s.Autocommit, s.InTx, s.Charset, s.Collation, ks)
}

func (c *Conn) status() uint16 {
	var st uint16
	if c.Autocommit {
		st |= myproto.SAutocommit
	}
	if c.InTx {
		st |= myproto.SInTrans
	}
	return st
}

func (b *Backend) serve(nc *simnet.Conn) {
	cl := b.cl
	cl.nextConn++
	c := &Conn{ID: cl.nextConn, B: b, nc: nc, pc: myproto.NewPacketConn(nc), killCh: make(chan struct{}, 1), Autocommit: true, Charset: "utf8mb4", Collation: "utf8mb4_general_ci", Vars: map[string]string{}, UserVars: map[string]string{}}
	b.Conns = append(b.Conns, c)
	defer func() {
		c.Closed = true
		c.InTx = false
		nc.Close()
	}()
	salt := make([]byte, 20)
	for i := range salt {
		salt[i] = byte(33 + (int(c.ID)*7+i*13+int(cl.Salt))%90)
	}
	g := myproto.Greeting{Version: b.Version, ConnID: c.ID, Salt: salt, Charset: 45, Status: myproto.SAutocommit, Plugin: "mysql_native_password",
		Caps: myproto.CLongPassword | myproto.CFoundRows | myproto.CLongFlag | myproto.CConnectWithDB | myproto.CProtocol41 | myproto.CTransactions | myproto.CSecureConnection | myproto.CMultiStatements | myproto.CMultiResults | myproto.CPluginAuth}
	if err := c.pc.WritePacket(g.Encode()); err != nil {
		return
	}
	lp, err := c.pc.ReadPacket()
	if err != nil {
		return
	}
	login, err := myproto.ParseLogin(lp)
	if err != nil {
		c.pc.WritePacket(myproto.ERR(1043, "08S01", "Bad handshake"))
		return
	}
	c.User, c.DB = login.User, login.DB
	if cc, ok := handshakeCollations[login.Charset]; ok {
		c.Charset, c.Collation = cc[0], cc[1]
	}
	if err := c.pc.WritePacket(myproto.OK(0, 0, c.status(), 0, "")); err != nil {
		return
	}
	for {
		c.pc.Seq = 0
		pkt, err := c.pc.ReadPacket()
		if err != nil || len(pkt) == 0 {
			return
		}
		if !c.command(pkt) {
			return
		}
	}
}

func leadingWord(sql string) (string, string) {
	s := strings.TrimSpace(sql)
	for strings.HasPrefix(s, "/*") {
		i := strings.Index(s, "*/")
		if i < 0 {
			break
		}
		s = strings.TrimSpace(s[i+2:])
	}
	low := strings.ToLower(s)
	i := strings.IndexAny(low, " \t\r\n(;")
	if i < 0 {
		return low, low
	}
	return low[:i], low
}

func classify(sql string) string {
	w, low := leadingWord(sql)
	switch w {
	case "begin":
		return "begin"
	case "start":
		return "begin"
	case "commit":
		return "commit"
	case "rollback":
		if strings.Contains(low, " to ") {
			return "savepoint"
		}
		return "rollback"
	case "savepoint", "release":
		return "savepoint"
	case "set":
		return "set"
	case "use":
		return "use"
	case "select", "insert", "update", "delete", "replace", "show", "kill":
		return w
	case "create", "alter", "drop", "truncate", "rename":
		return "ddl"
	case "load":
		return "load"
	case "explain", "desc", "describe":
		return "show"
	}
	return "other"
}

func restore(n ast.Node) string {
	var sb strings.Builder
	if n == nil {
		return ""
	}
	if err := n.Restore(format.NewRestoreCtx(format.RestoreStringSingleQuotes|format.RestoreKeyWordUppercase, &sb)); err != nil {
		return "<unrestorable>"
	}
	return sb.String()
}

// command handles one client command; false ends the connection.
func (c *Conn) command(pkt []byte) bool {
	cl := c.B.cl
	st := &Stmt{Seq: len(cl.Log) + 1, At: cl.Now(), Backend: c.B.Addr, Slice: c.B.Slice, Role: c.B.Role, ConnID: c.ID, Before: c.snapshot()}
	switch pkt[0] {
	case myproto.ComQuit:
		st.Cmd = "quit"
		st.Outcome = "ok"
		cl.Log = append(cl.Log, st)
		return false
	case myproto.ComPing:
		st.Cmd, st.Kind = "ping", "ping"
	case myproto.ComInitDB:
		st.Cmd, st.Kind, st.SQL = "initdb", "use", string(pkt[1:])
	case myproto.ComFieldList:
		st.Cmd, st.Kind = "fieldlist", "fieldlist"
		if i := bytes.IndexByte(pkt[1:], 0); i >= 0 {
			st.SQL = string(pkt[1 : 1+i])
		}
	case myproto.ComQuery:
		st.Cmd, st.SQL = "query", string(pkt[1:])
		st.Kind = classify(st.SQL)
	default:
		st.Cmd = fmt.Sprintf("cmd-%d", pkt[0])
		cl.Log = append(cl.Log, st)
		st.Outcome = "err:1047"
		return c.pc.WritePacket(myproto.ERR(1047, "08S01", "Unknown command")) == nil
	}
	cl.Log = append(cl.Log, st)
	if cl.OnReceive != nil {
		cl.OnReceive(c, st)
	}
	c.Stmts++
	var fa *FaultAction
	if cl.Fault != nil {
		fa = cl.Fault(c, st)
	}
	if fa != nil && fa.Delay > 0 {
		// the statement "executes" for a while; KILL QUERY from another connection interrupts it
		select {
		case <-c.killCh:
			st.Outcome = "err:1317"
			c.observe(st)
			return c.pc.WritePacket(myproto.ERR(1317, "70100", "Query execution was interrupted")) == nil
		case <-verifhook.After(fa.Delay):
		}
	}
	if fa != nil && !fa.AfterExec {
		switch {
		case fa.Drop:
			st.Outcome = "dropped"
			return false
		case fa.Reset:
			st.Outcome = "dropped"
			c.nc.Reset()
			return false
		case fa.Err != nil:
			st.Outcome = fmt.Sprintf("err:%d", fa.Err.Code)
			c.observe(st)
			return c.pc.WritePacket(myproto.ERR(fa.Err.Code, fa.Err.State, fa.Err.Msg)) == nil
		}
	}
	rep := c.execute(st)
	c.observe(st)
	if fa != nil && fa.AfterExec {
		st.Outcome += "+reply-lost"
		if fa.Reset {
			c.nc.Reset()
		}
		return false
	}
	return c.reply(st, rep)
}

func (c *Conn) observe(st *Stmt) {
	if c.B.cl.OnStmt != nil {
		c.B.cl.OnStmt(c, st)
	}
	if c.B.cl.Logf != nil && st.Cmd != "ping" && strings.ToLower(st.SQL) != "select 1" && !strings.HasPrefix(strings.ToLower(st.SQL), "show slave status") {
		sql := st.SQL
		if len(sql) > 160 {
			sql = sql[:160] + "..."
		}
		c.B.cl.Logf("  backend %s(%s/%s) conn %d %s %q -> %s", c.B.Addr, c.B.Slice, c.B.Role, c.ID, st.Cmd, sql, st.Outcome)
	}
}

func sqlErr(code uint16, state, msg string) *Reply {
	return &Reply{Err: &myproto.ServerError{Code: code, State: state, Msg: msg}}
}

// execute updates the session model and produces the reply.
func (c *Conn) execute(st *Stmt) *Reply {
	cl := c.B.cl
	if c.InTx {
		c.TxStmts++
	}
	switch st.Kind {
	case "ping":
		st.Outcome = "ok"
		return &Reply{}
	case "use":
		db := strings.Trim(strings.TrimSpace(st.SQL), "`")
		if st.Cmd == "query" {
			_, low := leadingWord(st.SQL)
			db = strings.Trim(strings.TrimSpace(strings.TrimSuffix(strings.TrimSpace(st.SQL[len(st.SQL)-len(low)+3:]), ";")), "`")
		}
		c.DB = db
		st.Outcome = "ok"
		return &Reply{}
	case "fieldlist":
		st.Outcome = "ok"
		return &Reply{Columns: []myproto.Column{{Schema: c.DB, Table: st.SQL, Name: "id", Type: myproto.TLongLong, Length: 20}}, NRows: -1}
	case "begin":
		c.InTx = true
		c.TxStmts = 0
		st.Outcome = "ok"
		return &Reply{}
	case "commit", "rollback":
		c.InTx = false
		c.Savepoints = nil
		st.Outcome = "ok"
		return &Reply{}
	case "savepoint":
		st.Outcome = "ok"
		return &Reply{}
	case "kill":
		// KILL [QUERY|CONNECTION] <id>
		f := strings.Fields(strings.TrimSuffix(strings.TrimSpace(st.SQL), ";"))
		var id uint64
		fmt.Sscan(f[len(f)-1], &id)
		for _, o := range c.B.Conns {
			if uint64(o.ID) == id && !o.Closed {
				select {
				case o.killCh <- struct{}{}:
				default:
				}
			}
		}
		st.Outcome = "ok"
		return &Reply{}
	case "set":
		return c.execSet(st)
	}
	if cl.Exec != nil {
		if rep := cl.Exec(c, st); rep != nil {
			c.afterData(st, rep)
			return rep
		}
	}
	rep := c.canned(st)
	c.afterData(st, rep)
	return rep
}

func (c *Conn) afterData(st *Stmt, rep *Reply) {
	switch {
	case rep.Err != nil:
		st.Outcome = fmt.Sprintf("err:%d", rep.Err.Code)
	case rep.Columns != nil:
		n := rep.NRows
		if rep.RowGen == nil {
			n = len(rep.Rows)
		}
		st.Outcome = fmt.Sprintf("rows:%d", n)
	default:
		st.Outcome = "ok"
		if !c.Autocommit && (st.Kind == "insert" || st.Kind == "update" || st.Kind == "delete" || st.Kind == "replace" || st.Kind == "select") {
			c.InTx = true
		}
	}
	if rep.Err == nil && !c.Autocommit && st.Kind == "select" {
		c.InTx = true
	}
}

func oneCell(name string, v []byte) *Reply {
	return &Reply{Columns: []myproto.Column{{Name: name, Type: myproto.TVarString, Length: 255}}, Rows: [][][]byte{{v}}}
}

func (c *Conn) canned(st *Stmt) *Reply {
	_, low := leadingWord(st.SQL)
	low = strings.TrimSuffix(strings.TrimSpace(low), ";")
	switch st.Kind {
	case "select":
		switch {
		case strings.HasPrefix(low, "select @") && !strings.HasPrefix(low, "select @@"):
			name := strings.Fields(low[7:])[0]
			if v, ok := c.UserVars[name]; ok {
				return oneCell(name, []byte(v))
			}
			return oneCell(name, nil)
		case strings.HasPrefix(low, "select @@"):
			name := strings.TrimPrefix(strings.Fields(low[7:])[0], "@@")
			name = strings.TrimPrefix(strings.TrimPrefix(name, "session."), "global.")
			if v, ok := c.Vars[name]; ok {
				return oneCell("@@"+name, []byte(v))
			}
			return oneCell("@@"+name, []byte("DEFAULT"))
		case low == "select 1":
			return &Reply{Columns: []myproto.Column{{Name: "1", Type: myproto.TLongLong, Length: 1, Flags: myproto.FNotNull | myproto.FBinary}}, Rows: [][][]byte{{[]byte("1")}}}
		}
		// who-am-I result: lets a client see which backend connection served it
		return &Reply{Columns: []myproto.Column{
			{Name: "backend", Type: myproto.TVarString, Length: 64},
			{Name: "conn", Type: myproto.TLongLong, Length: 20},
			{Name: "db", Type: myproto.TVarString, Length: 64},
		}, Rows: [][][]byte{{[]byte(c.B.Addr), []byte(fmt.Sprint(c.ID)), []byte(c.DB)}}}
	case "show":
		return &Reply{Columns: []myproto.Column{{Name: "Variable_name", Type: myproto.TVarString, Length: 64}, {Name: "Value", Type: myproto.TVarString, Length: 64}}}
	case "insert", "replace", "update", "delete":
		return &Reply{Affected: 1}
	}
	return &Reply{}
}

func (c *Conn) execSet(st *Stmt) *Reply {
	node, err := parser.ParseSQL(st.SQL)
	if err != nil {
		st.Outcome = "err:1064"
		return sqlErr(1064, "42000", "You have an error in your SQL syntax: "+err.Error())
	}
	set, ok := node.(*ast.SetStmt)
	if !ok {
		st.Outcome = "ok"
		return &Reply{}
	}
	st.Node = node
	type change struct {
		kind, name, val string
		del             bool
	}
	var changes []change
	for _, va := range set.Variables {
		val := restore(va.Value)
		up := strings.ToUpper(strings.Trim(val, "'"))
		switch {
		case va.Name == ast.SetNames:
			cs := strings.Trim(val, "'")
			coll := ""
			if s := va.ExtendValue; s != nil {
				coll = strings.Trim(restore(s), "'")
			}
			changes = append(changes, change{kind: "names", name: strings.ToLower(cs), val: strings.ToLower(coll)})
		case va.IsGlobal:
			// ignored: global scope is not part of the session model
		case va.IsSystem:
			name := strings.ToLower(va.Name)
			if name == "autocommit" {
				changes = append(changes, change{kind: "autocommit", val: up})
				continue
			}
			changes = append(changes, change{kind: "var", name: name, val: strings.Trim(val, "'"), del: up == "DEFAULT"})
		default:
			changes = append(changes, change{kind: "uservar", name: "@" + strings.ToLower(va.Name), val: strings.Trim(val, "'"), del: up == "NULL"})
		}
	}
	// validation first: a SET statement is atomic
	for _, ch := range changes {
		if ch.kind == "var" && ch.name == "sql_mode" && strings.Contains(strings.ToUpper(ch.val), "NOT_A_MODE") {
			st.Outcome = "err:1231"
			return sqlErr(1231, "42000", "Variable 'sql_mode' can't be set to the value of '"+ch.val+"'")
		}
	}
	for _, ch := range changes {
		switch ch.kind {
		case "names":
			c.Charset = ch.name
			if ch.val != "" {
				c.Collation = ch.val
			} else {
				c.Collation = ch.name + "_default"
			}
		case "autocommit":
			on := ch.val == "1" || ch.val == "ON" || ch.val == "TRUE"
			if on && !c.Autocommit {
				c.InTx = false // switching autocommit on commits the open transaction
			}
			c.Autocommit = on
		case "var":
			if ch.del {
				delete(c.Vars, ch.name)
			} else {
				c.Vars[ch.name] = ch.val
			}
		case "uservar":
			if ch.del {
				delete(c.UserVars, ch.name)
			} else {
				c.UserVars[ch.name] = ch.val
			}
		}
	}
	st.Outcome = "ok"
	return &Reply{}
}

func (c *Conn) reply(st *Stmt, rep *Reply) bool {
	for ; rep != nil; rep = rep.Next {
		if !c.replyOne(st, rep) {
			return false
		}
		if rep.Err != nil {
			return true // an error ends the chain
		}
		if rep.Next != nil && rep.StallNext > 0 {
			verifhook.Sleep(rep.StallNext)
		}
	}
	return true
}

func (c *Conn) replyOne(st *Stmt, rep *Reply) bool {
	pc := c.pc
	status := c.status()
	if rep.Next != nil {
		status |= myproto.SMoreResults
	}
	switch {
	case rep.Err != nil:
		return pc.WritePacket(myproto.ERR(rep.Err.Code, rep.Err.State, rep.Err.Msg)) == nil
	case rep.Columns == nil:
		return pc.WritePacket(myproto.OK(rep.Affected, rep.InsertID, status, 0, rep.Info)) == nil
	}
	if st.Cmd != "fieldlist" {
		if pc.WritePacket(myproto.AppendLenInt(nil, uint64(len(rep.Columns)))) != nil {
			return false
		}
	}
	for _, col := range rep.Columns {
		if pc.WritePacket(col.Encode()) != nil {
			return false
		}
	}
	if pc.WritePacket(myproto.EOF(status, 0)) != nil {
		return false
	}
	if st.Cmd == "fieldlist" {
		return true
	}
	mid := func(i int) bool { // false: the connection was cut before row i
		if rep.StallAfter > 0 && i == rep.StallAfter {
			verifhook.Sleep(rep.StallFor)
		}
		if rep.CutAfter > 0 && i == rep.CutAfter {
			st.Outcome += fmt.Sprintf("+cut-after-%d-rows", i)
			if rep.CutReset {
				c.nc.Reset()
			} else {
				c.nc.Close()
			}
			return false
		}
		return true
	}
	if rep.RowGen != nil {
		for i := 0; i < rep.NRows; i++ {
			if !mid(i) {
				return false
			}
			if pc.WritePacket(myproto.TextRow(rep.RowGen(i))) != nil {
				return false
			}
		}
	} else {
		for i, row := range rep.Rows {
			if !mid(i) {
				return false
			}
			if pc.WritePacket(myproto.TextRow(row)) != nil {
				return false
			}
		}
	}
	return pc.WritePacket(myproto.EOF(status, 0)) == nil
}

// OpenTransactions lists backend connections that are alive and inside a transaction or with autocommit off.
func (cl *Cluster) OpenTransactions() []string {
	var out []string
	var addrs []string
	for a := range cl.Backends {
		addrs = append(addrs, a)
	}
	sort.Strings(addrs)
	for _, a := range addrs {
		for _, c := range cl.Backends[a].Conns {
			if !c.Closed && (c.InTx || !c.Autocommit) {
				out = append(out, fmt.Sprintf("%s conn %d (inTx=%v autocommit=%v)", a, c.ID, c.InTx, c.Autocommit))
			}
		}
	}
	return out
}
