package wserver

import (
	"context"
	"errors"
	"fmt"
	"net"
	"sort"
	"strings"
	"time"

	"github.com/anishathalye/porcupine"

	"github.com/XiaoMi/Gaea/models"
	"github.com/XiaoMi/Gaea/proxy/server"
	"github.com/XiaoMi/Gaea/util/verifhook"

	"verif/harness/simkit"
)

// C31: the real server.Manager double buffer under prepare / commit / delete
// from concurrent administrators and reader lookups between any two steps.
// The recorded history is checked with porcupine against the sequential
// specification of the property.

func init() {
	worlds["C31"] = &simkit.World{Property: "C31", Run: runC31, Classify: classifyC31, TraceCap: 3000, MinBudget: 300}
}

type c31in struct {
	Op   string // prepare | commit | delete | read | readuser
	NS   string
	V    int
	Bad  bool
	Task string
	Dup  bool // strict partition: a second task repeats this commit concurrently
}

type c31out struct {
	Panic bool
	Err   bool
	V     int  // read: active version (0 = absent)
	OK    bool // readuser
}

// sequential specification, one partition per namespace
type c31state struct {
	Active   int // 0 = absent
	Prepared int // 0 = nothing pending
}

var c31model = porcupine.Model{
	Partition: func(history []porcupine.Operation) [][]porcupine.Operation {
		m := map[string][]porcupine.Operation{}
		var keys []string
		for _, op := range history {
			k := op.Input.(c31in).NS
			if _, ok := m[k]; !ok {
				keys = append(keys, k)
			}
			m[k] = append(m[k], op)
		}
		sort.Strings(keys)
		var out [][]porcupine.Operation
		for _, k := range keys {
			out = append(out, m[k])
		}
		return out
	},
	Init: func() interface{} { return c31state{} },
	Step: func(state, input, output interface{}) (bool, interface{}) {
		s := state.(c31state)
		in := input.(c31in)
		out := output.(c31out)
		// A refused operation changes nothing. The property speaks about successful
		// commits only, so a spurious refusal is never counted as a violation; an
		// unbuildable configuration however must be refused.
		switch in.Op {
		case "prepare":
			if out.Err {
				return true, s
			}
			if in.Bad {
				return false, s
			}
			s.Prepared = in.V
			return true, s
		case "commit":
			if out.Err {
				return true, s
			}
			if s.Prepared == 0 {
				return false, s // nothing prepared for this namespace: a success activates something that was never prepared for it
			}
			s.Active, s.Prepared = s.Prepared, 0
			return true, s
		case "delete":
			if out.Err {
				return true, s
			}
			s.Active = 0
			return true, s
		case "read":
			return out.V == s.Active, s
		case "readuser":
			return out.OK == (s.Active == in.V && in.V != 0), s
		}
		return false, s
	},
	Equal: func(a, b interface{}) bool { return a.(c31state) == b.(c31state) },
	DescribeOperation: func(input, output interface{}) string {
		return fmt.Sprintf("%+v -> %+v", input, output)
	},
}

type c31world struct {
	panicked    string
	ops         []porcupine.Operation
	interleaved bool
}

func runC31(r *simkit.Run) {
	tp := r.Tape
	verifhook.DialFn = func(ctx context.Context, network, addr string) (net.Conn, error) {
		return nil, errors.New("connection refused (no backend in this world)")
	}
	strict := simkit.Params["partition"] == "strict"
	nNS := tp.Range(2, 3)
	names := []string{"alpha", "beta", "gamma"}[:nNS]
	initial := map[string]*models.Namespace{}
	initVersion := map[string]int{}
	for _, n := range names {
		if tp.Chance(2, 3) {
			initial[n] = nsConfig(n, 1, 1)
			initVersion[n] = 1
		}
	}
	// every namespace object built in the run (also staged ones that are replaced before a commit) is closed at the end
	var everNS []*server.Namespace
	verifhook.Hooks["server.NewNamespace"] = func(v interface{}) {
		if n, ok := v.(*server.Namespace); ok && n != nil {
			everNS = append(everNS, n)
		}
	}
	defer delete(verifhook.Hooks, "server.NewNamespace")
	m, err := server.VerifNewManager("c3", initial)
	if err != nil {
		r.Failf("harness", "VerifNewManager: %v", err)
		return
	}
	r.SetSiteDensity([]int{4, 2, 1}[tp.Choose(3)], uint32(tp.Choose(1<<16)))
	w := &c31world{}
	r.World = w
	cfg := fmt.Sprintf("strict=%v namespaces=%v initial=%v", strict, names, initVersion)
	r.Logf("config %s", cfg)

	var clock int64
	tick := func() int64 { clock++; return clock }
	client := 0
	record := func(in c31in, call int64, out c31out, cid int) {
		w.ops = append(w.ops, porcupine.Operation{ClientId: cid, Input: in, Call: call, Output: out, Return: tick()})
		r.Logf("  %s %+v -> %+v", in.Task, in, out)
	}
	// the initial configuration enters the history as completed operations
	for _, n := range names {
		if v := initVersion[n]; v != 0 {
			c := tick()
			w.ops = append(w.ops, porcupine.Operation{ClientId: 0, Input: c31in{Op: "prepare", NS: n, V: v, Task: "init"}, Call: c, Output: c31out{}, Return: tick()})
			c = tick()
			w.ops = append(w.ops, porcupine.Operation{ClientId: 0, Input: c31in{Op: "commit", NS: n, Task: "init"}, Call: c, Output: c31out{}, Return: tick()})
		}
	}
	version := 1
	do := func(in c31in, cid int) {
		call := tick()
		var out c31out
		defer func() {
			if e := recover(); e != nil {
				// an administrative operation that panics (the admin HTTP handler would
				// answer 500): recorded as a failed operation and reported at the end
				out.Err = true
				out.Panic = true
				w.panicked = fmt.Sprintf("%s(%s) panicked: %v", in.Op, in.NS, e)
				record(in, call, out, cid)
			}
		}()
		switch in.Op {
		case "prepare":
			c := nsConfig(in.NS, in.V, 1)
			if in.Bad {
				c.DefaultCharset = "no_such_charset"
			}
			out.Err = m.ReloadNamespacePrepare(c) != nil
		case "commit":
			out.Err = m.ReloadNamespaceCommit(in.NS) != nil
		case "delete":
			out.Err = m.DeleteNamespace(in.NS) != nil
		case "read":
			if ns := m.GetNamespace(in.NS); ns != nil {
				out.V = server.VerifNamespaceMaxExecuteTime(ns)
			}
		case "readuser":
			out.OK = m.GetNamespaceByUser("u_"+in.NS, fmt.Sprintf("p%d", in.V)) == in.NS
		}
		record(in, call, out, cid)
	}
	maxOps := 14 - len(w.ops)
	if maxOps > 11 {
		maxOps = 11
	}
	type script []c31in
	var scripts []script
	if strict {
		// one administrator; between prepare(n) and commit(n) nothing else succeeds on
		// another namespace. A second task may repeat the commit concurrently, and a
		// failing prepare of another namespace may sit inside the window.
		var adm, dup script
		budget := tp.Range(3, maxOps-2)
		for len(adm) < budget {
			n := names[tp.Choose(nNS)]
			switch tp.Choose(4) {
			case 0:
				adm = append(adm, c31in{Op: "delete", NS: n})
			case 1:
				adm = append(adm, c31in{Op: "commit", NS: n}) // nothing pending: must be refused
			default:
				version++
				adm = append(adm, c31in{Op: "prepare", NS: n, V: version})
				if tp.Chance(1, 3) {
					other := names[(tp.Choose(nNS-1)+1+indexOf(names, n))%nNS]
					adm = append(adm, c31in{Op: "prepare", NS: other, V: 99, Bad: true})
				}
				if len(dup) == 0 && tp.Chance(1, 3) {
					adm = append(adm, c31in{Op: "commit", NS: n, Dup: true})
					dup = append(dup, c31in{Op: "commit", NS: n})
				} else {
					adm = append(adm, c31in{Op: "commit", NS: n})
				}
			}
		}
		scripts = append(scripts, adm)
		if len(dup) > 0 {
			scripts = append(scripts, dup[:1])
		}
	} else {
		nAdm := tp.Range(2, 3)
		total := tp.Range(4, maxOps-1)
		scripts = make([]script, nAdm)
		for i := 0; i < total; i++ {
			n := names[tp.Choose(nNS)]
			a := tp.Choose(nAdm)
			switch tp.Choose(5) {
			case 0:
				scripts[a] = append(scripts[a], c31in{Op: "delete", NS: n})
			case 1, 2:
				version++
				scripts[a] = append(scripts[a], c31in{Op: "prepare", NS: n, V: version, Bad: tp.Chance(1, 8)})
			default:
				scripts[a] = append(scripts[a], c31in{Op: "commit", NS: n})
			}
		}
	}
	admins := 0
	dupGo, dupDone := false, false
	for i, sc := range scripts {
		if len(sc) == 0 {
			continue
		}
		admins++
		sc := sc
		client++
		cid := client
		name := fmt.Sprintf("admin%d", i)
		isDup := strict && i == 1
		r.Go(name, func() {
			for _, in := range sc {
				in.Task = name
				if isDup {
					for !dupGo {
						simkit.Pause(r, "wait:"+name)
					}
				}
				if in.Dup {
					dupGo = true
				}
				do(in, cid)
				if isDup {
					dupDone = true
				}
				if in.Dup {
					// the administrator goes on only when the repeated commit has returned,
					// so nothing on another namespace overlaps it
					for !dupDone {
						simkit.Pause(r, "wait:"+name)
					}
				}
				simkit.Pause(r, "idle:"+name)
			}
		})
	}
	// readers look at the configuration between any two steps of a switch
	nReaders := tp.Range(1, 2)
	readsLeft := 14 - len(w.ops)
	for _, sc := range scripts {
		readsLeft -= len(sc)
	}
	if readsLeft > 4 {
		readsLeft = 4
	}
	for i := 0; i < nReaders && readsLeft > 0; i++ {
		client++
		cid := client
		name := fmt.Sprintf("reader%d", i)
		k := readsLeft / (nReaders - i)
		readsLeft -= k
		var sc script
		for j := 0; j < k; j++ {
			n := names[tp.Choose(nNS)]
			if tp.Chance(1, 3) {
				sc = append(sc, c31in{Op: "readuser", NS: n, V: tp.Range(1, version)})
			} else {
				sc = append(sc, c31in{Op: "read", NS: n})
			}
		}
		r.Go(name, func() {
			for _, in := range sc {
				in.Task = name
				do(in, cid)
				simkit.Pause(r, "idle:"+name)
			}
		})
	}
	for r.Steps < 30000 && !r.Failed() {
		r.Settle()
		en := r.Enabled()
		if len(en) == 0 {
			break
		}
		r.Release(en[tp.Choose(len(en))])
	}
	// final observation of every namespace, after everything has returned
	r.FreeRun()
	for _, n := range names {
		do(c31in{Op: "read", NS: n, Task: "final"}, 0)
	}
	if !r.Failed() && w.panicked != "" {
		w.interleaved = adminOpsInterleave(w.ops)
		r.Failf("history-not-linearizable", "an administrative operation panicked: %s; history: %s", w.panicked, describeHistory(w.ops))
	}
	if !r.Failed() {
		if len(w.ops) > 22 {
			r.Failf("harness", "history too long for the checker: %d", len(w.ops))
		}
		res := porcupine.CheckOperationsTimeout(c31model, w.ops, 20*time.Second)
		switch res {
		case porcupine.Illegal:
			w.interleaved = adminOpsInterleave(w.ops)
			r.Failf("history-not-linearizable", "the recorded history of %d operations has no sequential explanation under the specification: %s", len(w.ops), describeHistory(w.ops))
		case porcupine.Unknown:
			r.Probe("porcupine-timeout-inconclusive")
		}
	}
	r.Nontrivial = admins >= 1 && len(w.ops) >= 6
	if adminOpsInterleave(w.ops) {
		r.Probe("admin-ops-on-different-namespaces-interleave")
	}
	r.State(simkit.Hash(describeHistory(w.ops)))
	r.Sample = map[string]interface{}{"config": cfg, "history": strings.Split(describeHistory(w.ops), "; ")}
	// drain: close every namespace object so pool timers stop
	seen := map[*server.Namespace]bool{}
	for _, ns := range append(server.VerifAllNamespaces(m), everNS...) {
		if !seen[ns] {
			seen[ns] = true
			func() {
				defer func() { recover() }()
				ns.Close(false)
			}()
		}
	}
	simkit.Sleep(70 * time.Second)
}

func indexOf(a []string, s string) int {
	for i, x := range a {
		if x == s {
			return i
		}
	}
	return 0
}

func describeHistory(ops []porcupine.Operation) string {
	type ev struct {
		t int64
		s string
	}
	var evs []ev
	for _, op := range ops {
		in := op.Input.(c31in)
		out := op.Output.(c31out)
		desc := fmt.Sprintf("%s(%s", in.Op, in.NS)
		if in.Op == "prepare" || in.Op == "readuser" {
			desc += fmt.Sprintf(",v%d", in.V)
			if in.Bad {
				desc += ",bad"
			}
		}
		desc += ")"
		res := "ok"
		switch {
		case in.Op == "read":
			res = fmt.Sprintf("v%d", out.V)
		case in.Op == "readuser":
			res = fmt.Sprint(out.OK)
		case out.Err:
			res = "err"
		}
		evs = append(evs, ev{op.Call, fmt.Sprintf("[%d-%d %s] %s=%s", op.Call, op.Return, in.Task, desc, res)})
	}
	sort.Slice(evs, func(i, j int) bool { return evs[i].t < evs[j].t })
	var ss []string
	for _, e := range evs {
		ss = append(ss, e.s)
	}
	return strings.Join(ss, "; ")
}

// adminOpsInterleave is the predicate of known finding C31-F1: administrative
// operations on different namespaces overlap in time, or a successful prepare,
// a commit or a delete of another namespace falls between a prepare and the
// commit that consumes it.
func adminOpsInterleave(ops []porcupine.Operation) bool {
	var adm []porcupine.Operation
	for _, op := range ops {
		in := op.Input.(c31in)
		if in.Op == "prepare" || in.Op == "commit" || in.Op == "delete" {
			adm = append(adm, op)
		}
	}
	sort.Slice(adm, func(i, j int) bool { return adm[i].Call < adm[j].Call })
	// two administrative operations overlap in time (two commits of one namespace excepted:
	// the manager's compare-and-swap on the prepared flag makes that pair safe)
	for i := range adm {
		for j := i + 1; j < len(adm); j++ {
			a, b := adm[i], adm[j]
			ai, bi := a.Input.(c31in), b.Input.(c31in)
			if b.Call < a.Return && !(ai.Op == "commit" && bi.Op == "commit" && ai.NS == bi.NS) {
				return true
			}
		}
	}
	// between a successful prepare(n) and the successful commit(n) that consumes it there is
	// another effective operation: a successful prepare or commit of another namespace, or a delete
	for i, p := range adm {
		pin := p.Input.(c31in)
		if pin.Op != "prepare" || p.Output.(c31out).Err {
			continue
		}
		for j := i + 1; j < len(adm); j++ {
			q := adm[j]
			qin := q.Input.(c31in)
			qerr := q.Output.(c31out).Err
			if qin.NS == pin.NS && qin.Op == "commit" && !qerr {
				break
			}
			if qerr && !q.Output.(c31out).Panic {
				continue
			}
			if qin.Op == "delete" || qin.NS != pin.NS {
				return true
			}
		}
	}
	// a pending prepare that is never committed while later operations touch other namespaces
	return false
}

func classifyC31(r *simkit.Run) {
	if w, ok := r.World.(*c31world); ok && r.Viol != nil && r.Viol.Clause == "history-not-linearizable" && w.interleaved {
		r.Viol.Finding = "C31-F1"
	}
}
