package wserver

import (
	"fmt"
	"reflect"
	"sort"
	"strings"
)

// deepFP renders a value including unexported fields, following pointers,
// with maps in key order and without addresses, so two structurally equal
// object graphs print the same. Fields whose type lives in a package listed
// in skipPkgs are rendered as their type name only.
func deepFP(v interface{}, skipPkgs ...string) string {
	var sb strings.Builder
	seen := map[uintptr]bool{}
	var walk func(rv reflect.Value, depth int)
	skip := func(t reflect.Type) bool {
		for t.Kind() == reflect.Ptr || t.Kind() == reflect.Slice {
			t = t.Elem()
		}
		for _, p := range skipPkgs {
			if strings.Contains(t.PkgPath(), p) {
				return true
			}
		}
		return false
	}
	walk = func(rv reflect.Value, depth int) {
		if depth > 40 {
			sb.WriteString("<deep>")
			return
		}
		if !rv.IsValid() {
			sb.WriteString("<nil>")
			return
		}
		switch rv.Kind() {
		case reflect.Ptr:
			if rv.IsNil() {
				sb.WriteString("nil")
				return
			}
			if skip(rv.Type()) {
				sb.WriteString("<" + rv.Type().String() + ">")
				return
			}
			if seen[rv.Pointer()] {
				sb.WriteString("<cycle>")
				return
			}
			seen[rv.Pointer()] = true
			sb.WriteString("&")
			walk(rv.Elem(), depth+1)
		case reflect.Interface:
			if rv.IsNil() {
				sb.WriteString("nil")
				return
			}
			walk(rv.Elem(), depth+1)
		case reflect.Struct:
			if skip(rv.Type()) {
				sb.WriteString("<" + rv.Type().String() + ">")
				return
			}
			sb.WriteString(rv.Type().Name() + "{")
			for i := 0; i < rv.NumField(); i++ {
				f := rv.Type().Field(i)
				if f.Type.Kind() == reflect.Func || f.Type.Kind() == reflect.Chan {
					continue
				}
				sb.WriteString(f.Name + ":")
				walk(rv.Field(i), depth+1)
				sb.WriteString(" ")
			}
			sb.WriteString("}")
		case reflect.Map:
			if rv.IsNil() {
				sb.WriteString("nilmap")
				return
			}
			type kv struct {
				k string
				v reflect.Value
			}
			var kvs []kv
			it := rv.MapRange()
			for it.Next() {
				kvs = append(kvs, kv{fmt.Sprint(printable(it.Key())), it.Value()})
			}
			sort.Slice(kvs, func(i, j int) bool { return kvs[i].k < kvs[j].k })
			sb.WriteString("map[")
			for _, e := range kvs {
				sb.WriteString(e.k + ":")
				walk(e.v, depth+1)
				sb.WriteString(" ")
			}
			sb.WriteString("]")
		case reflect.Slice, reflect.Array:
			if rv.Kind() == reflect.Slice && rv.IsNil() {
				sb.WriteString("nilslice")
				return
			}
			sb.WriteString("[")
			for i := 0; i < rv.Len(); i++ {
				walk(rv.Index(i), depth+1)
				sb.WriteString(" ")
			}
			sb.WriteString("]")
		case reflect.Func, reflect.Chan, reflect.UnsafePointer:
			sb.WriteString("<" + rv.Kind().String() + ">")
		default:
			sb.WriteString(fmt.Sprint(printable(rv)))
		}
	}
	walk(reflect.ValueOf(v), 0)
	return sb.String()
}

func printable(rv reflect.Value) interface{} {
	switch rv.Kind() {
	case reflect.Bool:
		return rv.Bool()
	case reflect.Int, reflect.Int8, reflect.Int16, reflect.Int32, reflect.Int64:
		return rv.Int()
	case reflect.Uint, reflect.Uint8, reflect.Uint16, reflect.Uint32, reflect.Uint64, reflect.Uintptr:
		return rv.Uint()
	case reflect.Float32, reflect.Float64:
		return rv.Float()
	case reflect.String:
		return rv.String()
	case reflect.Complex64, reflect.Complex128:
		return rv.Complex()
	}
	return "<" + rv.Kind().String() + ">"
}
