package wserver

import (
	"fmt"
	"strings"

	"github.com/XiaoMi/Gaea/models"
	"github.com/XiaoMi/Gaea/mysql"
	"github.com/XiaoMi/Gaea/parser"
	"github.com/XiaoMi/Gaea/proxy/plan"
	"github.com/XiaoMi/Gaea/proxy/router"
	"github.com/XiaoMi/Gaea/proxy/sequence"

	"verif/harness/simkit"
)

// C07: several session tasks plan statements against ONE namespace router at
// the same time (full planning, the unshard fast path, rule lookup for
// field-list), parked at yield points inside Router.GetRule and the unshard
// checks. Each plan must equal the plan of the same statement computed alone
// on a fresh identical router, and the shared router must never change.

func init() {
	worlds["C07"] = &simkit.World{Property: "C07", Run: runC07, TraceCap: 2500, MinBudget: 400}
}

func c07Namespace() *models.Namespace {
	ns := nsConfig("ns", 1, 2)
	ns.AllowedDBS = map[string]bool{"db_a": true, "db_b": true, "db_c": true, "db_mycat": true}
	ns.DefaultPhyDBS = map[string]string{"db_a": "db_a", "db_b": "db_b_phy", "db_c": "db_c", "db_mycat": "db_mycat"}
	ns.ShardRules = []*models.Shard{
		{DB: "db_a", Table: "t_hash", Type: "hash", Key: "id", Locations: []int{2, 2}, Slices: []string{"slice-0", "slice-1"}},
		{DB: "db_a", Table: "t_mod", Type: "mod", Key: "id", Locations: []int{1, 1}, Slices: []string{"slice-0", "slice-1"}},
		{DB: "db_b", Table: "t_range", Type: "range", Key: "id", Locations: []int{2, 2}, Slices: []string{"slice-0", "slice-1"}, TableRowLimit: 100},
		{DB: "db_mycat", Table: "t_str", Type: "mycat_string", Key: "id", Locations: []int{2, 2}, Slices: []string{"slice-0", "slice-1"}, Databases: []string{"db_mycat_[0-3]"}, PartitionCount: "4", PartitionLength: "256", HashSlice: "20"},
		{DB: "db_mycat", Table: "t_mur", Type: "mycat_murmur", Key: "id", Locations: []int{2, 2}, Slices: []string{"slice-0", "slice-1"}, Databases: []string{"db_mycat_[0-3]"}, Seed: "0", VirtualBucketTimes: "4"},
	}
	return ns
}

type c07stmt struct {
	db   string
	sql  string
	kind string // plan | fast | fieldlist
}

// planOne performs what a session does for one statement and returns a
// fingerprint of everything it computed.
func planOne(rt *router.Router, phyDBs map[string]string, st c07stmt) string {
	switch st.kind {
	case "fieldlist":
		return "slice=" + rt.GetRule(st.db, st.sql).GetSlice(0)
	case "fast":
		tokens := parser.Tokenize(st.sql)
		if len(tokens) == 0 {
			return "notokens"
		}
		// (the session's pre-check, step by step: a sharded table named anywhere sends the statement to the full analysis)
		if plan.MentionsShardTable(tokens, rt) {
			return "mentions-a-sharded-table"
		}
		tokenID, ok := mysql.ParseTokenMap[strings.ToLower(tokens[0])]
		if !ok {
			return "notfast"
		}
		ruleDB, unshard := st.db, true
		switch tokenID {
		case mysql.TkIdSelect, mysql.TkIdDelete:
			ruleDB, unshard = plan.CheckUnshardBase(tokenID, tokens, rt, st.db)
		case mysql.TkIdReplace, mysql.TkIdInsert:
			ruleDB, unshard = plan.CheckUnshardInsert(tokens, rt, st.db)
		case mysql.TkIdUpdate:
			ruleDB, unshard = plan.CheckUnshardUpdate(tokens, rt, st.db)
		default:
			return "notfast"
		}
		if !unshard {
			return fmt.Sprintf("sharded ruleDB=%s", ruleDB)
		}
		p, err := plan.PreCreateUnshardPlan(st.sql, phyDBs, ruleDB)
		if err != nil {
			return fmt.Sprintf("unshard ruleDB=%s err=%v", ruleDB, err)
		}
		return fmt.Sprintf("unshard ruleDB=%s plan=%s", ruleDB, deepFP(p, "/parser"))
	default:
		stmt, err := parser.ParseSQL(st.sql)
		if err != nil {
			return "parse error: " + err.Error()
		}
		p, err := plan.BuildPlan(stmt, phyDBs, st.db, st.sql, rt, sequence.NewSequenceManager(), nil)
		if err != nil {
			return "plan error: " + err.Error()
		}
		return deepFP(p, "/parser", "/proxy/router", "/proxy/sequence")
	}
}

func runC07(r *simkit.Run) {
	tp := r.Tape
	nsCfg := c07Namespace()
	shared, err := router.NewRouter(nsCfg)
	if err != nil {
		r.Failf("harness", "NewRouter: %v", err)
		return
	}
	phyDBs := nsCfg.DefaultPhyDBS
	r.SetSiteDensity([]int{4, 4, 2}[tp.Choose(3)], uint32(tp.Choose(1<<16)))
	keys := []string{"1", "7", "42", "'abc'", "'zzz9'", "'k" + fmt.Sprint(tp.Choose(1000)) + "'", fmt.Sprint(tp.Choose(100000))}
	key := func() string { return keys[tp.Choose(len(keys))] }
	dbs := []string{"db_a", "db_b", "db_c", "db_mycat"}
	gen := func() c07stmt {
		db := dbs[tp.Choose(len(dbs))]
		switch tp.Choose(20) {
		case 17:
			// range conditions on the range rule: unions and complements of sub-table lists
			lo, hi := []int{50, 100, 150, 99}[tp.Choose(4)], []int{250, 300, 320, 399}[tp.Choose(4)]
			return c07stmt{"db_b", fmt.Sprintf("select * from t_range where id < %d or id >= %d", lo, hi), "plan"}
		case 18:
			lo, hi := []int{100, 120, 199}[tp.Choose(3)], []int{200, 299, 310}[tp.Choose(3)]
			return c07stmt{"db_b", fmt.Sprintf("select * from t_range where id %sbetween %d and %d", []string{"", "not "}[tp.Choose(2)], lo, hi), "plan"}
		case 19:
			return c07stmt{"db_b", fmt.Sprintf("update t_range set a = 2 where id > %d and id <= %d", tp.Choose(200), 200+tp.Choose(199)), "plan"}
		case 14:
			return c07stmt{db, "select * from " + []string{"DB_A", "Db_a", "db_A"}[tp.Choose(3)] + ".t_hash where id = " + key(), "plan"}
		case 15:
			return c07stmt{db, "select * from " + []string{"DB_MYCAT", "Db_Mycat"}[tp.Choose(2)] + ".t_str where id = " + key(), []string{"plan", "fast"}[tp.Choose(2)]}
		case 16:
			return c07stmt{db, "update " + []string{"DB_B", "db_B"}[tp.Choose(2)] + ".T_RANGE set a = 1 where id = 5", []string{"plan", "fast"}[tp.Choose(2)]}
		case 0:
			return c07stmt{db, "select * from t_plain where id = " + key(), "plan"}
		case 1:
			return c07stmt{db, "select * from t_plain where id = " + key(), "fast"}
		case 2:
			return c07stmt{db, "update t_plain set a = 1 where id = " + key(), "fast"}
		case 3:
			return c07stmt{db, "insert into t_other (id, a) values (" + key() + ", 1)", "fast"}
		case 4:
			return c07stmt{db, "delete from db_c.t_other where id = " + key(), "fast"}
		case 5:
			return c07stmt{"db_a", "select * from t_hash where id = " + key(), "plan"}
		case 6:
			return c07stmt{db, "select * from db_a.t_hash where id in (1,2,3)", "fast"}
		case 7:
			return c07stmt{"db_mycat", "select * from t_str where id = " + key(), "plan"}
		case 8:
			return c07stmt{"db_mycat", "insert into t_str (id, a) values (" + key() + ", 2)", "plan"}
		case 9:
			return c07stmt{"db_mycat", "update t_mur set a = 3 where id = " + key(), "plan"}
		case 10:
			return c07stmt{"db_b", "select * from t_range where id = " + fmt.Sprint(tp.Choose(400)), "plan"}
		case 11:
			return c07stmt{db, []string{"t_plain", "t_hash", "t_other", "db_a.t_hash"}[tp.Choose(4)], "fieldlist"}
		case 12:
			return c07stmt{"db_a", "delete from t_mod where id = " + fmt.Sprint(tp.Choose(50)), "plan"}
		default:
			return c07stmt{db, "select a, b from t_plain join t_other on t_plain.id = t_other.id where t_plain.id = " + key(), "plan"}
		}
	}
	nTasks := tp.Range(2, 4)
	per := tp.Range(2, 5)
	scripts := make([][]c07stmt, nTasks)
	for i := range scripts {
		for j := 0; j < per; j++ {
			scripts[i] = append(scripts[i], gen())
		}
	}
	cfg := fmt.Sprintf("tasks=%d statements=%d", nTasks, per)
	r.Logf("config %s", cfg)
	before := deepFP(shared)
	planned := 0
	for i := range scripts {
		name := fmt.Sprintf("session%d", i)
		sc := scripts[i]
		r.Go(name, func() {
			for _, st := range sc {
				got := planOne(shared, phyDBs, st)
				planned++
				// reference: the same statement planned alone on a fresh identical router
				fresh, _ := router.NewRouter(nsCfg)
				saved := r.PauseYields()
				want := planOne(fresh, phyDBs, st)
				r.ResumeYields(saved)
				r.Logf("%s planned [%s] db=%s %q", name, st.kind, st.db, st.sql)
				if got != want {
					r.Failf("plan-differs-from-planning-alone", "%s: %s statement %q with current database %s planned concurrently gives\n  %s\nplanned alone it gives\n  %s", name, st.kind, st.sql, st.db, clip(got), clip(want))
				}
				simkit.Pause(r, "idle:"+name)
			}
		})
	}
	steps := 0
	for r.Steps < 40000 && !r.Failed() {
		r.Settle()
		if now := deepFP(shared); now != before {
			r.Failf("shared-router-modified-by-planning", "planning changed the routing configuration shared between sessions: %s", diffHint(before, now))
			break
		}
		en := r.Enabled()
		if len(en) == 0 {
			break
		}
		r.Release(en[tp.Choose(len(en))])
		steps++
	}
	r.Nontrivial = planned >= 2 && steps > 20
	r.State(simkit.Hash(fmt.Sprint(scripts)))
	r.Sample = map[string]interface{}{"config": cfg, "scripts": fmt.Sprint(scripts), "planned": planned}
}

func clip(s string) string {
	if len(s) > 600 {
		return s[:600] + "..."
	}
	return s
}

func diffHint(a, b string) string {
	i := 0
	for i < len(a) && i < len(b) && a[i] == b[i] {
		i++
	}
	lo := i - 80
	if lo < 0 {
		lo = 0
	}
	hiA, hiB := i+60, i+60
	if hiA > len(a) {
		hiA = len(a)
	}
	if hiB > len(b) {
		hiB = len(b)
	}
	return fmt.Sprintf("before ...%s... after ...%s...", a[lo:hiA], b[lo:hiB])
}
