package wserver

import (
	"fmt"

	"github.com/XiaoMi/Gaea/models"
)

// nsConfig builds a small valid namespace configuration. The version is
// stamped into max_sql_execute_time and into the password of user u_<name>.
func nsConfig(name string, version int, slices int) *models.Namespace {
	ns := &models.Namespace{
		Name:              name,
		Online:            true,
		AllowedDBS:        map[string]bool{"db_" + name: true},
		DefaultPhyDBS:     map[string]string{"db_" + name: "db_" + name},
		SlowSQLTime:       "1000",
		DefaultSlice:      "slice-0",
		DefaultCharset:    "utf8mb4",
		DefaultCollation:  "utf8mb4_general_ci",
		MaxSqlExecuteTime: version,
		MaxSqlResultSize:  10000,
		DownAfterNoAlive:  32,
		Users: []*models.User{
			{UserName: "u_" + name, Password: fmt.Sprintf("p%d", version), Namespace: name, RWFlag: 2, RWSplit: 0},
			{UserName: "shared", Password: fmt.Sprintf("%s-p%d", name, version), Namespace: name, RWFlag: 2, RWSplit: 1},
		},
	}
	for i := 0; i < slices; i++ {
		ns.Slices = append(ns.Slices, &models.Slice{
			Name: fmt.Sprintf("slice-%d", i), UserName: "root", Password: "root",
			Master:   fmt.Sprintf("%s-m%d.sim:3306#c3", name, i),
			Slaves:   []string{fmt.Sprintf("%s-s%d.sim:3306#c3", name, i)},
			Capacity: 2, MaxCapacity: 4, IdleTimeout: 3600,
		})
	}
	return ns
}
