package w1proxy

import (
	"fmt"

	"github.com/XiaoMi/Gaea/models"

	"verif/harness/mycli"
	"verif/harness/simkit"
)

func init() {
	worlds["SMOKE"] = &simkit.World{Property: "SMOKE", Run: runSmoke}
}

func runSmoke(r *simkit.Run) {
	ns := baseNamespace("ns1", 2, 1)
	w, err := NewWorld(r, map[string]*models.Namespace{"ns1": ns}, WorldOpts{})
	if err != nil {
		r.Failf("harness", "NewWorld: %v", err)
		return
	}
	w.Cl.Logf = r.Logf
	done := false
	r.Go("client", func() {
		defer func() { done = true }()
		c, err := w.Connect("", mycli.Options{User: "ns1_rw", Password: "pw_rw", DB: "db1"})
		if err != nil {
			r.Failf("smoke", "connect: %v", err)
			return
		}
		for _, q := range []string{"select * from t1 where id = 1", "begin", "update t1 set a = 1 where id = 2", "commit", "set @x = 5", "select @x"} {
			res, err := c.Query(q)
			r.Logf("client %q -> %v err=%v", q, summarize(res), err)
		}
		c.Quit()
	})
	for i := 0; i < 200 && !done; i++ {
		r.Settle()
		en := r.Enabled()
		if len(en) > 0 {
			r.Release(en[0])
			continue
		}
		r.Advance(100 * 1e6)
	}
	if !done {
		r.Failf("smoke", "client did not finish")
	}
	r.Sample = map[string]interface{}{"trace": r.Trace()}
	w.Shutdown()
}

func summarize(res []*mycli.Result) string {
	s := ""
	for _, x := range res {
		if x.OK != nil {
			s += fmt.Sprintf("[OK affected=%d status=%x]", x.OK.Affected, x.OK.Status)
		} else {
			s += fmt.Sprintf("[%d cols %d rows", len(x.Columns), len(x.Rows))
			for _, row := range x.Rows {
				s += " ("
				for _, v := range row {
					if v == nil {
						s += "NULL,"
					} else {
						s += string(v) + ","
					}
				}
				s += ")"
			}
			s += "]"
		}
	}
	return s
}
