package w1proxy

import (
	"fmt"
	"sort"
	"strings"
	"time"

	"github.com/XiaoMi/Gaea/models"

	"verif/harness/mycli"
	"verif/harness/myproto"
	"verif/harness/mysim"
	"verif/harness/simkit"
)

// C18: a transaction stays on one master connection per slice.

func init() {
	worlds["C18"] = &simkit.World{Property: "C18", Run: runC18, TraceCap: 2500, MinBudget: 250}
}

// genTxnOp draws one session command for the transaction-centred workloads.
func genTxnOp(tp *simkit.Tape, client, idx int, nSlices int) Op {
	m := markerOf(client, idx)
	key := func() string { return fmt.Sprint(m) }
	switch c := tp.Choose(25); {
	case c == 22:
		return Op{Kind: "query", SQL: []string{"show tables", "show variables like 'version%'", "show create table t_plain"}[tp.Choose(3)], Class: "show"}
	case c == 23:
		return Op{Kind: "fieldlist", Arg: []string{"t_plain", "t_shard"}[tp.Choose(2)], Class: "other"}
	case c == 24:
		return Op{Kind: "use", Arg: []string{"db1", "db2"}[tp.Choose(2)], Class: "other"}
	case c == 0:
		return Op{Kind: "query", SQL: "begin", Class: "begin"}
	case c == 1:
		return Op{Kind: "query", SQL: "start transaction", Class: "begin"}
	case c == 2 || c == 3:
		return Op{Kind: "query", SQL: "commit", Class: "commit"}
	case c == 4:
		return Op{Kind: "query", SQL: "rollback", Class: "rollback"}
	case c == 5:
		return Op{Kind: "query", SQL: "set autocommit = 0", Class: "set-ac0"}
	case c == 6:
		return Op{Kind: "query", SQL: "set autocommit = 1", Class: "set-ac1"}
	case c == 7:
		return Op{Kind: "query", SQL: "savepoint sp1", Class: "savepoint"}
	case c == 8:
		return Op{Kind: "query", SQL: "rollback to sp1", Class: "savepoint"}
	case c <= 10:
		return Op{Kind: "query", SQL: "select * from t_plain where id = " + key(), Marker: m, Class: "read", Table: "t_plain"}
	case c <= 12:
		return Op{Kind: "query", SQL: "update t_plain set a = 1 where id = " + key(), Marker: m, Class: "write", Table: "t_plain"}
	case c == 13:
		return Op{Kind: "query", SQL: "select * from t_plain where id = " + key() + " for update", Marker: m, Class: "lockread", Table: "t_plain"}
	case c <= 15:
		return Op{Kind: "query", SQL: "select * from t_shard where id = " + key(), Marker: m, Class: "read", Table: "t_shard"}
	case c <= 17:
		return Op{Kind: "query", SQL: "update t_shard set a = 2 where id = " + key(), Marker: m, Class: "write", Table: "t_shard"}
	case c == 18:
		return Op{Kind: "query", SQL: "insert into t_shard (id, a) values (" + key() + ", 3)", Marker: m, Class: "write", Table: "t_shard"}
	case c == 19:
		// touches every slice
		return Op{Kind: "query", SQL: "update t_shard set a = " + key() + " where a = 5", Marker: m, Class: "write", Table: "t_shard"}
	case c == 20:
		return Op{Kind: "ping", Class: "other"}
	default:
		return Op{Kind: "query", SQL: "delete from t_plain where id = " + key(), Marker: m, Class: "write", Table: "t_plain"}
	}
}

type txUse struct {
	client int
	txid   int
	from   int64                      // seq of first statement
	to     int64                      // seq of the operation that ended it (0 = still open at the end)
	conns  map[string]map[uint32]bool // slice -> backend connection ids used
	addrs  map[string]string          // slice -> backend address
}

func runC18(r *simkit.Run) {
	tp := r.Tape
	nSlices := tp.Range(1, 3)
	nSlaves := tp.Range(0, 2)
	keep := tp.Chance(1, 3)
	nClients := tp.Range(1, 3)
	opsPer := tp.Range(4, 14)
	// a quarter of the runs have no shard rules: there CALL reaches the backend and is answered with several result sets
	noRules := tp.Chance(1, 4)
	mk := shardedNamespace
	if noRules {
		mk = baseNamespace
	}
	ns := mk("ns1", nSlices, nSlaves)
	ns.SetForKeepSession = keep
	for _, sl := range ns.Slices {
		sl.Capacity = tp.Range(1, 2)
		sl.MaxCapacity = sl.Capacity + tp.Range(1, 2)
		if keep && sl.MaxCapacity < nClients {
			sl.MaxCapacity = nClients // a keep-session client pins one connection per slice for its lifetime
		}
	}
	shortTimeout := tp.Chance(1, 4)
	wo := WorldOpts{}
	if shortTimeout {
		wo.SessionTimeoutSec = 5
	}
	w, err := NewWorld(r, map[string]*models.Namespace{"ns1": ns}, wo)
	if err != nil {
		r.Failf("harness", "NewWorld: %v", err)
		return
	}
	w.Cl.Logf = r.Logf
	h := &History{W: w, inFlight: map[int]*OpRec{}}
	w.Cl.OnReceive = func(c *mysim.Conn, st *mysim.Stmt) { st.Ev = h.tick() }
	w.Cl.Exec = func(c *mysim.Conn, st *mysim.Stmt) *mysim.Reply {
		if !strings.HasPrefix(strings.ToLower(strings.TrimSpace(st.SQL)), "call ") {
			return nil
		}
		col := []myproto.Column{{Name: "v", Type: myproto.TLongLong, Length: 20}}
		return &mysim.Reply{Columns: col, Rows: [][][]byte{{[]byte("1")}, {[]byte("2")}},
			Next: &mysim.Reply{Columns: col, Rows: [][][]byte{{[]byte("3")}}, Next: &mysim.Reply{}}}
	}
	cfg := fmt.Sprintf("slices=%d slaves=%d keepSession=%v clients=%d ops=%d sessionTimeout5s=%v shardRules=%v", nSlices, nSlaves, keep, nClients, opsPer, shortTimeout, !noRules)
	r.Logf("config %s", cfg)
	finished := 0
	for i := 0; i < nClients; i++ {
		user := []string{"ns1_rw", "ns1_split"}[tp.Choose(2)]
		cm := &ClientModel{Idx: i, User: user, DB: "db1", AC: true, Charset: "utf8mb4", Vars: map[string]string{}, UVars: map[string]string{}}
		for j := 0; j < opsPer; j++ {
			op := genTxnOp(tp, i, j, nSlices)
			if noRules && tp.Chance(1, 5) {
				m := markerOf(i, j)
				op = Op{Kind: "query", SQL: fmt.Sprintf("call p_multi(%d)", m), Marker: m, Class: "write", Table: "t_plain"}
			}
			if noRules && op.Kind == "use" {
				op.Arg = "db1" // (in db2 the proxy parses every statement and refuses CALL)
			}
			cm.Script = append(cm.Script, op)
		}
		h.Clients = append(h.Clients, cm)
		name := fmt.Sprintf("client%d", i)
		pw := map[string]string{"ns1_rw": "pw_rw", "ns1_split": "pw_split"}[user]
		r.Go(name, func() {
			c, err := w.Connect("", mycli.Options{User: cm.User, Password: pw, DB: "db1"})
			if err != nil {
				r.Failf("harness", "%s cannot connect: %v", name, err)
				return
			}
			cm.C = c
			cm.Connected = true
			for j, op := range cm.Script {
				if cm.Dead {
					break
				}
				simkit.Pause(r, "idle:"+name)
				rec := h.run(cm, j, op)
				r.Sched("op", fmt.Sprintf("%d/%s", cm.Idx, op.Class))
				r.Logf("%s [%s%s] %q -> %s", name, op.Class, txTag(rec), op.SQL, errText(rec.Err))
			}
			simkit.Pause(r, "idle:"+name)
			if !cm.Dead {
				h.run(cm, len(cm.Script), Op{Kind: "quit", Class: "quit"})
			}
			finished++
		})
	}
	driveBusy(r, tp, 4000, func() {
		// idle sessions are closed by the proxy's timer in some runs: let time pass now and then
		if shortTimeout && tp.Chance(1, 6) {
			r.Advance([]time.Duration{time.Second, 6 * time.Second, 11 * time.Second}[tp.Choose(3)])
			r.Fault("clock-advance-past-session-timeout")
		}
	}, func() bool { return finished < nClients })
	checkC18(r, h, keep, time.Duration(wo.SessionTimeoutSec)*time.Second)
	if finished < nClients {
		r.Probe("run-incomplete-clients-still-blocked")
	}
	// after every client has gone nothing may stay checked out
	if !r.Failed() && finished == nClients {
		r.FreeRun()
		r.Advance(1e9)
		if inUse, detail := w.PoolStats(); inUse != 0 {
			r.Failf("C18-connections-not-released", "all clients have disconnected but %d backend connections are still checked out: %v", inUse, detail)
		}
		if open := w.Cl.OpenTransactions(); len(open) > 0 {
			r.Failf("C18-transaction-left-open", "all clients have disconnected but backend connections are still inside a transaction: %v", open)
		}
	}
	txs := 0
	for _, o := range h.Ops {
		if o.TxOpen && o.Op.Marker != 0 {
			txs++
		}
	}
	r.Nontrivial = txs >= 2
	if keep {
		r.Probe("keep-session")
	}
	r.State(simkit.Hash(cfg))
	r.Sample = map[string]interface{}{"config": cfg, "ops": len(h.Ops), "statements_in_transactions": txs, "trace_head": head(r.Trace(), 40)}
	w.Shutdown()
}

func txTag(rec *OpRec) string {
	if rec.TxOpen {
		return fmt.Sprintf(" tx%d", rec.TxID)
	}
	return ""
}

func head(s []string, n int) []string {
	if len(s) > n {
		return s[:n]
	}
	return s
}

func checkC18(r *simkit.Run, h *History, keep bool, sessionTimeout time.Duration) {
	if r.Failed() {
		return
	}
	type ev struct {
		at   int64
		kind int // 0 op invoke, 1 backend statement, 2 op return
		rec  *OpRec
		st   *mysim.Stmt
	}
	var evs []ev
	opByMarker := map[int]*OpRec{}
	for _, rec := range h.Ops {
		evs = append(evs, ev{at: rec.Seq0, kind: 0, rec: rec}, ev{at: rec.Seq1, kind: 2, rec: rec})
		if rec.Op.Marker != 0 {
			opByMarker[rec.Op.Marker] = rec
		}
	}
	for _, st := range h.W.Cl.Log {
		if !isNoise(st) {
			evs = append(evs, ev{at: st.Ev, kind: 1, st: st})
		}
	}
	sort.Slice(evs, func(i, j int) bool { return evs[i].at < evs[j].at })
	txs := map[string]*txUse{}
	key := func(c, t int) string { return fmt.Sprintf("%d/%d", c, t) }
	owner := map[string]*txUse{}        // backend connection -> transaction that is open on it
	ending := map[int]*OpRec{}          // client -> end operation in flight
	gone := map[int]bool{}              // client disconnected
	pinned := map[int]map[string]bool{} // keep-session: connections a client is pinned to
	lastActivity := map[int]time.Duration{}
	active := map[int]*OpRec{}
	touched := map[int]map[string]bool{}       // connections that received anything during a client's solitary operations
	touchedBefore := map[int]map[string]bool{} // the same, as of the start of the client's current operation
	for _, e := range evs {
		switch e.kind {
		case 0:
			tb := map[string]bool{}
			for k := range touched[e.rec.Client] {
				tb[k] = true
			}
			touchedBefore[e.rec.Client] = tb
			active[e.rec.Client] = e.rec
			lastActivity[e.rec.Client] = e.rec.At
			switch e.rec.Op.Class {
			case "commit", "rollback", "quit":
				ending[e.rec.Client] = e.rec
			case "set-ac1":
				// ends a transaction only when autocommit was off (MySQL commits on the switch from 0 to 1;
				// with autocommit on already nothing happens and a transaction opened with BEGIN stays open)
				if !e.rec.AC {
					ending[e.rec.Client] = e.rec
				}
			}
			if e.rec.Op.Kind == "drop" {
				ending[e.rec.Client] = e.rec
			}
		case 2:
			rec := e.rec
			delete(ending, rec.Client)
			delete(active, rec.Client)
			switch {
			case rec.Op.Class == "quit" || rec.Op.Kind == "drop" || h.Clients[rec.Client].Dead && rec == lastOp(h, rec.Client):
				gone[rec.Client] = true
			case rec.TxOpen && rec.Err == nil && (rec.Op.Class == "commit" || rec.Op.Class == "rollback" || rec.Op.Class == "set-ac1" && !rec.AC):
				// the transaction is over for the client: every connection it used must have been told
				for k, o := range owner {
					if o.client == rec.Client && o.txid == rec.TxID {
						r.Failf("C18-end-not-sent-to-used-connection", "client %d got OK for %s of transaction %d but connection %s, which the transaction used, received neither COMMIT nor ROLLBACK", rec.Client, rec.Op.Class, rec.TxID, k)
					}
				}
			case rec.Op.Class == "begin" && rec.TxOpen && rec.Err == nil:
				// BEGIN inside a transaction: the next transaction continues on the held connections
				if old := txs[key(rec.Client, rec.TxID)]; old != nil {
					nu := &txUse{client: rec.Client, txid: rec.TxID + 1, from: rec.Seq0, conns: old.conns, addrs: old.addrs}
					txs[key(rec.Client, rec.TxID+1)] = nu
					for k, o := range owner {
						if o == old {
							owner[k] = nu
						}
					}
				}
			}
		case 1:
			st := e.st
			ck := fmt.Sprintf("%s#%d", st.Backend, st.ConnID)
			{
				// (with several operations in flight the statement is credited to all of them: a superset)
				for cl := range active {
					if touched[cl] == nil {
						touched[cl] = map[string]bool{}
					}
					touched[cl][ck] = true
				}
			}
			isEnd := st.Kind == "commit" || st.Kind == "rollback" || (st.Kind == "set" && strings.Contains(strings.ToLower(st.SQL), "autocommit = 1") && !st.Before.Autocommit)
			if isEnd {
				if o := owner[ck]; o != nil {
					if ending[o.client] == nil && !gone[o.client] && sessionTimeout > 0 && st.Kind == "rollback" && st.At-lastActivity[o.client] >= sessionTimeout {
						// the proxy's idle timer closed the session (no command for at least the
						// session timeout): it rolls the open transaction back on its own
						gone[o.client] = true
						r.Probe("session-closed-by-idle-timer-inside-transaction")
					}
					if ending[o.client] == nil && !gone[o.client] {
						r.Failf("C18-transaction-ended-by-someone-else", "connection %s received %q while transaction %d of client %d is open on it and that client has not asked to end it", ck, st.SQL, o.txid, o.client)
					}
					delete(owner, ck)
				} else if en := endingClientOf(ending, st); en != nil && !keep && !en.Overlap && en.TxOpen {
					// a COMMIT/ROLLBACK of a client's transaction went to a connection the transaction never used
					if tu := txs[key(en.Client, en.TxID)]; (tu == nil || !usedConn(tu, ck)) && !touchedBefore[en.Client][ck] {
						if st.Kind == "commit" || (st.Kind == "rollback" && en.Op.Class == "rollback") {
							r.Failf("C18-end-sent-to-foreign-connection", "client %d %s of transaction %d was sent to connection %s which the transaction never used", en.Client, en.Op.Class, en.TxID, ck)
						}
					}
				}
				continue
			}
			ms := markersIn(st.SQL)
			var rec *OpRec
			if len(ms) > 0 {
				rec = opByMarker[ms[0]]
			}
			if rec == nil {
				continue
			}
			if pinned[rec.Client] == nil {
				pinned[rec.Client] = map[string]bool{}
			}
			pinned[rec.Client][ck] = true
			if !rec.TxOpen {
				if o := owner[ck]; o != nil && o.client != rec.Client {
					r.Failf("C18-connection-shared-between-sessions", "client %d ran %q on %s while transaction %d of client %d is open on that connection", rec.Client, rec.Op.SQL, ck, o.txid, o.client)
				}
				continue
			}
			if st.Role != "master" {
				r.Failf("C18-transaction-statement-on-replica", "client %d statement %q inside transaction %d ran on %s which is a %s", rec.Client, rec.Op.SQL, rec.TxID, st.Backend, st.Role)
			}
			tu := txs[key(rec.Client, rec.TxID)]
			if tu == nil {
				tu = &txUse{client: rec.Client, txid: rec.TxID, from: rec.Seq0, conns: map[string]map[uint32]bool{}, addrs: map[string]string{}}
				txs[key(rec.Client, rec.TxID)] = tu
			}
			if tu.conns[st.Slice] == nil {
				tu.conns[st.Slice] = map[uint32]bool{}
			}
			tu.conns[st.Slice][st.ConnID] = true
			tu.addrs[st.Slice] = st.Backend
			if len(tu.conns[st.Slice]) > 1 {
				r.Failf("C18-transaction-changed-connection", "client %d transaction %d used backend connections %v of slice %s (statement %q)", rec.Client, rec.TxID, keysU(tu.conns[st.Slice]), st.Slice, rec.Op.SQL)
			}
			if o := owner[ck]; o != nil && o != tu {
				r.Failf("C18-connection-shared-between-sessions", "client %d transaction %d ran %q on %s while transaction %d of client %d is open on that connection", rec.Client, rec.TxID, rec.Op.SQL, ck, o.txid, o.client)
			}
			owner[ck] = tu
			if !st.Before.InTx && st.Before.Autocommit {
				r.Failf("C18-statement-outside-backend-transaction", "client %d statement %q of transaction %d ran on %s while that backend connection was not inside a transaction", rec.Client, rec.Op.SQL, rec.TxID, ck)
			}
		}
	}
}

func lastOp(h *History, client int) *OpRec {
	var l *OpRec
	for _, o := range h.Ops {
		if o.Client == client {
			l = o
		}
	}
	return l
}

// endingClientOf: the single end operation in flight, if exactly one client is ending a transaction.
func endingClientOf(ending map[int]*OpRec, st *mysim.Stmt) *OpRec {
	if len(ending) != 1 {
		return nil
	}
	for _, r := range ending {
		return r
	}
	return nil
}

func usedConn(tu *txUse, ck string) bool {
	for sl, ids := range tu.conns {
		for id := range ids {
			if fmt.Sprintf("%s#%d", tu.addrs[sl], id) == ck {
				return true
			}
		}
	}
	return false
}

func keys(m map[string]bool) []string {
	var o []string
	for k := range m {
		o = append(o, k)
	}
	sort.Strings(o)
	return o
}

func keysU(m map[uint32]bool) []uint32 {
	var o []uint32
	for k := range m {
		o = append(o, k)
	}
	sort.Slice(o, func(i, j int) bool { return o[i] < o[j] })
	return o
}

var _ = mysim.Stmt{}
