package w1proxy

import (
	"fmt"
	"net/netip"
	"strings"

	"github.com/XiaoMi/Gaea/models"

	"verif/harness/mycli"
	"verif/harness/simkit"
)

// C35: only allow-listed client addresses can connect.

func init() {
	worlds["C35"] = &simkit.World{Property: "C35", Run: runC35, Classify: func(*simkit.Run) {}, TraceCap: 2500, MinBudget: 250}
}

// c35addr is an address in structured form: 16 bytes; v4 = the address is an IPv4 address (kept in the last 4 bytes).
type c35addr struct {
	b  [16]byte
	v4 bool
}

func c35v4(a, b, c, d byte) c35addr {
	var x c35addr
	x.v4 = true
	x.b[10], x.b[11] = 0xff, 0xff
	x.b[12], x.b[13], x.b[14], x.b[15] = a, b, c, d
	return x
}

func c35v6(groups ...uint16) c35addr {
	var x c35addr
	for i, g := range groups {
		x.b[2*i], x.b[2*i+1] = byte(g>>8), byte(g)
	}
	return x
}

func (a c35addr) dotted() string {
	return fmt.Sprintf("%d.%d.%d.%d", a.b[12], a.b[13], a.b[14], a.b[15])
}

// full is the uncompressed IPv6 spelling; upper selects upper-case hex digits.
func (a c35addr) full(upper bool) string {
	var g []string
	for i := 0; i < 8; i++ {
		f := "%x"
		if upper {
			f = "%X"
		}
		g = append(g, fmt.Sprintf(f, uint16(a.b[2*i])<<8|uint16(a.b[2*i+1])))
	}
	return strings.Join(g, ":")
}

func (a c35addr) compressed() string { return netip.AddrFrom16(a.b).Unmap().String() }

// bit i (0 = most significant) of the significant part: 32 bits for IPv4, 128 for IPv6.
func (a c35addr) width() int {
	if a.v4 {
		return 32
	}
	return 128
}
func (a c35addr) off() int {
	if a.v4 {
		return 96
	}
	return 0
}
func (a c35addr) bit(i int) int {
	i += a.off()
	return int(a.b[i/8]>>(7-uint(i%8))) & 1
}
func (a c35addr) flip(i int) c35addr {
	i += a.off()
	a.b[i/8] ^= 1 << (7 - uint(i%8))
	return a
}
func (a c35addr) setFrom(i int, v int) c35addr { // bits i.. of the significant part := v
	for k := i; k < a.width(); k++ {
		if a.bit(k) != v {
			a = a.flip(k)
		}
	}
	return a
}
func (a c35addr) succ() c35addr {
	for k := a.width() - 1; k >= 0; k-- {
		a = a.flip(k)
		if a.bit(k) == 1 {
			break
		}
	}
	return a
}
func (a c35addr) pred() c35addr {
	for k := a.width() - 1; k >= 0; k-- {
		a = a.flip(k)
		if a.bit(k) == 0 {
			break
		}
	}
	return a
}

// prefixEq: the first n bits of the 128-bit forms agree.
func prefixEq128(x, y [16]byte, n int) bool {
	for i := 0; i < n; i++ {
		if (x[i/8]>>(7-uint(i%8)))&1 != (y[i/8]>>(7-uint(i%8)))&1 {
			return false
		}
	}
	return true
}

// c35entry is one allow-list entry.
type c35entry struct {
	a      c35addr
	mapped bool // an IPv4 address/block written in IPv4-mapped IPv6 form
	prefix int  // -1 = single address; otherwise the prefix length as written (for mapped: 96..128)
	text   string
}

// match is the reference: 1 allowed, 0 not, -1 the statement leaves it open (an IPv4 client and a native IPv6 block
// that happens to contain the IPv4-mapped range; only consistency between the two presentations is required).
func (e c35entry) match(c c35addr) int {
	b2i := func(b bool) int {
		if b {
			return 1
		}
		return 0
	}
	switch {
	case e.a.v4: // IPv4 entry, dotted or mapped spelling
		if !c.v4 {
			return 0
		}
		if e.prefix < 0 {
			return b2i(e.a.b == c.b)
		}
		n := e.prefix
		if e.mapped {
			n -= 96
		}
		return b2i(prefixEq128(e.a.b, c.b, 96+n))
	default: // native IPv6 entry
		if e.prefix < 0 {
			return b2i(!c.v4 && e.a.b == c.b)
		}
		in := prefixEq128(e.a.b, c.b, e.prefix)
		if c.v4 {
			if in {
				return -1
			}
			return 0
		}
		return b2i(in)
	}
}

var c35v4pool = []c35addr{c35v4(10, 1, 2, 3), c35v4(10, 1, 2, 4), c35v4(192, 168, 0, 1), c35v4(172, 16, 255, 255), c35v4(0, 0, 0, 0), c35v4(255, 255, 255, 255), c35v4(127, 0, 0, 1), c35v4(10, 128, 0, 0)}
var c35v6pool = []c35addr{c35v6(0x2001, 0xdb8, 0, 0, 0, 0, 0, 1), c35v6(0, 0, 0, 0, 0, 0, 0, 1), c35v6(0xfe80, 0, 0, 0, 0, 0, 0, 1), c35v6(0x2001, 0xdb8, 0xabcd, 0x12, 0xffff, 0xffff, 0xffff, 0xffff), c35v6(0, 0, 0, 0, 0, 0, 0x0a01, 0x0203), c35v6(0x2001, 0xdb8, 0, 0, 0, 0, 0x0a01, 0x0203), c35v6(0xff00, 0, 0, 0, 0, 0, 0, 0), c35v6(0, 0, 0, 0, 0, 0xfffe, 0x0a01, 0x0203)}

func c35drawEntry(tp *simkit.Tape) c35entry {
	var e c35entry
	e.prefix = -1
	switch tp.Choose(7) {
	case 0: // IPv4 address
		e.a = c35v4pool[tp.Choose(len(c35v4pool))]
		e.text = e.a.dotted()
	case 1, 2: // IPv4 block (the base need not be the network address)
		e.a = c35v4pool[tp.Choose(len(c35v4pool))]
		e.prefix = tp.Choose(33)
		e.text = fmt.Sprintf("%s/%d", e.a.dotted(), e.prefix)
	case 3: // IPv6 address, three spellings
		e.a = c35v6pool[tp.Choose(len(c35v6pool))]
		e.text = []string{e.a.full(false), e.a.full(true), e.a.compressed()}[tp.Choose(3)]
	case 4: // IPv6 block
		e.a = c35v6pool[tp.Choose(len(c35v6pool))]
		e.prefix = tp.Choose(129)
		e.text = fmt.Sprintf("%s/%d", []string{e.a.full(false), e.a.compressed()}[tp.Choose(2)], e.prefix)
	case 5: // IPv4 address in mapped form
		e.a = c35v4pool[tp.Choose(len(c35v4pool))]
		e.mapped = true
		e.text = "::ffff:" + e.a.dotted()
	case 6: // IPv4 block in mapped form
		e.a = c35v4pool[tp.Choose(len(c35v4pool))]
		e.mapped = true
		e.prefix = 96 + tp.Choose(33)
		e.text = fmt.Sprintf("::ffff:%s/%d", e.a.dotted(), e.prefix)
	}
	switch tp.Choose(6) {
	case 0:
		e.text = " " + e.text
	case 1:
		e.text = e.text + " "
	case 2:
		e.text = "  " + e.text + "\t"
	}
	return e
}

// c35clients proposes client addresses around the entries of a list: inside, at both edges and just outside each block.
func c35clients(tp *simkit.Tape, list []c35entry) []c35addr {
	var out []c35addr
	for _, e := range list {
		base := e.a
		out = append(out, base)
		if e.prefix < 0 {
			out = append(out, base.succ(), base.pred(), base.flip(tp.Choose(base.width())))
			continue
		}
		n := e.prefix
		if e.mapped {
			n -= 96
		}
		first, last := base.setFrom(n, 0), base.setFrom(n, 1)
		out = append(out, first, last, first.pred(), last.succ())
		if n > 0 {
			out = append(out, base.flip(n-1), base.flip(tp.Choose(n))) // outside
		}
		if n < base.width() {
			out = append(out, base.flip(n), base.flip(n+tp.Choose(base.width()-n))) // inside
		}
	}
	// the other family's view of some of them: the IPv6 address with the same low 32 bits, and the reverse
	for _, a := range append([]c35addr{}, out...) {
		if tp.Chance(1, 4) {
			if a.v4 {
				x := c35v6pool[tp.Choose(len(c35v6pool))]
				copy(x.b[12:], a.b[12:])
				out = append(out, x)
			} else {
				out = append(out, c35v4(a.b[12], a.b[13], a.b[14], a.b[15]))
			}
		}
	}
	out = append(out, c35v4pool[tp.Choose(len(c35v4pool))], c35v6pool[tp.Choose(len(c35v6pool))])
	for i := range out {
		out[i] = out[i].norm()
	}
	return out
}

// norm: a 16-byte address inside ::ffff:0:0/96 is an IPv4 address.
func (a c35addr) norm() c35addr {
	if a.v4 {
		return a
	}
	for i := 0; i < 10; i++ {
		if a.b[i] != 0 {
			return a
		}
	}
	if a.b[10] == 0xff && a.b[11] == 0xff {
		a.v4 = true
	}
	return a
}

func c35ns(list []c35entry) *models.Namespace {
	ns := baseNamespace("ns1", 1, 0)
	ns.AllowedIP = nil
	for _, e := range list {
		ns.AllowedIP = append(ns.AllowedIP, e.text)
	}
	return ns
}

func c35texts(list []c35entry) string {
	var s []string
	for _, e := range list {
		s = append(s, fmt.Sprintf("%q", e.text))
	}
	return "[" + strings.Join(s, ", ") + "]"
}

func runC35(r *simkit.Run) {
	tp := r.Tape
	drawList := func() []c35entry {
		var l []c35entry
		n := tp.Choose(5)
		if n == 4 && tp.Chance(1, 2) {
			n = 1
		}
		for i := 0; i < n; i++ {
			l = append(l, c35drawEntry(tp))
		}
		if n > 0 && tp.Chance(1, 6) {
			l = append(l, c35entry{text: " ", prefix: -2}) // a blank entry is skipped
		}
		if n == 0 && tp.Chance(1, 2) {
			// nothing but blank entries: the list is empty
			for i := 0; i < tp.Range(1, 3); i++ {
				l = append(l, c35entry{text: []string{"", " ", "\t"}[tp.Choose(3)], prefix: -2})
			}
		}
		return l
	}
	list := drawList()
	var list2 []c35entry
	reload := tp.Chance(1, 3)
	if reload {
		list2 = drawList()
	}
	w, err := NewWorld(r, map[string]*models.Namespace{"ns1": c35ns(list)}, WorldOpts{})
	if err != nil {
		r.Failf("harness", "NewWorld with allow-list %s: %v", c35texts(list), err)
		return
	}
	w.Cl.Logf = r.Logf
	r.SetSiteDensity(0, 0)
	cfgText := fmt.Sprintf("entries=%d reload=%v", len(list), reload)
	r.Logf("config %s; allow-list %s", cfgText, c35texts(list))
	nAttempts := tp.Range(4, 14)
	reloadAt := -1
	if reload {
		reloadAt = tp.Choose(nAttempts)
	}
	allowed, refused, open := 0, 0, 0
	finished := false
	r.Go("client", func() {
		defer func() { finished = true }()
		cur := list
		cands := c35clients(tp, cur)
		seen := map[string]bool{} // verdicts observed for cases the statement leaves open: list generation + address -> result
		gen := 0
		for i := 0; i < nAttempts; i++ {
			if i == reloadAt {
				if err := w.Manager.ReloadNamespacePrepare(c35ns(list2)); err != nil {
					r.Failf("harness", "prepare with allow-list %s: %v", c35texts(list2), err)
					return
				}
				if err := w.Manager.ReloadNamespaceCommit("ns1"); err != nil {
					r.Failf("harness", "commit: %v", err)
					return
				}
				cur = list2
				gen++
				cands = c35clients(tp, cur)
				r.Fault("allow-list-reloaded")
				r.Logf("allow-list now %s", c35texts(cur))
			}
			a := cands[tp.Choose(len(cands))]
			// presentation of the peer address
			var host, form string
			switch {
			case a.v4 && tp.Chance(1, 2):
				host, form = "::ffff:"+a.dotted(), "ipv4-mapped"
			case a.v4:
				host, form = a.dotted(), "ipv4"
			case tp.Chance(1, 2):
				host, form = a.full(false), "ipv6"
			default:
				host, form = a.compressed(), "ipv6"
			}
			from := fmt.Sprintf("%s:%d", host, 40000+i)
			if strings.Contains(host, ":") {
				from = fmt.Sprintf("[%s]:%d", host, 40000+i)
			}
			want := 0
			nEntries := 0
			for _, e := range cur {
				if e.prefix == -2 {
					continue
				}
				nEntries++
				switch e.match(a) {
				case 1:
					want = 1
				case -1:
					if want == 0 {
						want = -1
					}
				}
			}
			if nEntries == 0 {
				want = 1
			}
			c, err := w.Connect(from, mycli.Options{User: "ns1_rw", Password: "pw_rw", DB: "db1"})
			got := err == nil
			if got {
				if _, qerr := c.Query(fmt.Sprintf("select %d", markerOf(0, i))); qerr != nil {
					r.Failf("C35-session-unusable", "client %s was admitted but its first query failed: %v", from, qerr)
					return
				}
				c.Quit()
				allowed++
			} else {
				if c != nil && c.Dead {
					r.Failf("harness", "transport failure during handshake from %s: %v", from, err)
					return
				}
				refused++
			}
			r.Sched("op", fmt.Sprintf("%s/%v", form, got))
			r.Logf("attempt %d from %s (%s) -> %s; reference %d", i, from, form, errText(err), want)
			switch {
			case want == 1 && !got:
				r.Failf("C35-listed-address-refused", "client %s (%s) is covered by the allow-list %s but was refused: %v", from, form, c35texts(cur), err)
				return
			case want == 0 && got:
				r.Failf("C35-unlisted-address-admitted", "client %s (%s) is not covered by the allow-list %s but was admitted", from, form, c35texts(cur))
				return
			case want == -1:
				open++
				key := fmt.Sprintf("%d/%x", gen, a.b)
				if prev, ok := seen[key]; ok && prev != got {
					r.Failf("C35-ipv4-presentation-matters", "IPv4 client %s was admitted=%v as %s but admitted=%v in its other presentation, allow-list %s", a.dotted(), got, form, prev, c35texts(cur))
					return
				}
				seen[key] = got
			}
		}
	})
	driveBusy(r, tp, 3000, nil, func() bool { return !finished })
	r.Nontrivial = allowed > 0 && refused > 0
	if allowed > 0 {
		r.Probe("client-admitted")
	}
	if refused > 0 {
		r.Probe("client-refused")
	}
	if open > 0 {
		r.Probe("ipv4-client-vs-ipv6-block")
	}
	r.State(simkit.Hash(c35texts(list)))
	r.Sample = map[string]interface{}{"config": cfgText, "allow_list": c35texts(list), "admitted": allowed, "refused": refused, "trace_head": head(r.Trace(), 30)}
	w.Shutdown()
}
