package w1proxy

import (
	"fmt"
	"time"

	"github.com/XiaoMi/Gaea/models"

	"verif/harness/mycli"
	"verif/harness/simkit"
)

// C37 at the level of sessions (the wheel itself is checked in the util world): the real Server registers
// a session with the idle timer when it connects, records activity with every command and removes it when
// the session ends. A client that keeps sending commands is not closed however long it stays; a client
// that falls silent is closed no earlier than the session timeout after its last command and not much later.

func init() {
	worlds["C37"] = &simkit.World{Property: "C37", Run: runC37Session, TraceCap: 2500, MinBudget: 60}
}

func runC37Session(r *simkit.Run) {
	tp := r.Tape
	timeoutSec := []int{5, 10, 15}[tp.Choose(3)]
	timeout := time.Duration(timeoutSec) * time.Second
	const tick = 5 * time.Second // the server's wheel turns every five seconds
	nClients := tp.Range(1, 3)
	ns := baseNamespace("ns1", 1, 0)
	w, err := NewWorld(r, map[string]*models.Namespace{"ns1": ns}, WorldOpts{SessionTimeoutSec: timeoutSec})
	if err != nil {
		r.Failf("harness", "NewWorld: %v", err)
		return
	}
	w.Cl.Logf = r.Logf
	r.SetSiteDensity(0, 0)
	cfg := fmt.Sprintf("session-level sessionTimeout=%ds clients=%d", timeoutSec, nClients)
	r.Logf("config %s", cfg)
	finished := 0
	busyOK, idleClosed := 0, 0
	for i := 0; i < nClients; i++ {
		name := fmt.Sprintf("client%d", i)
		// the script: a busy phase (commands with gaps shorter than the timeout), then silence or a quit
		busyFor := time.Duration(tp.Range(1, 4)) * timeout
		gaps := []time.Duration{time.Second, 2 * time.Second, 3 * time.Second, 4 * time.Second}
		ending := []string{"silent", "silent", "quit"}[tp.Choose(3)]
		var gapSeq []time.Duration
		for total := time.Duration(0); total < busyFor; {
			g := gaps[tp.Choose(len(gaps))]
			if g >= timeout {
				g = timeout - time.Second
			}
			gapSeq = append(gapSeq, g)
			total += g
		}
		r.Go(name, func() {
			defer func() { finished++ }()
			c, err := w.Connect("", mycli.Options{User: "ns1_rw", Password: "pw_rw", DB: "db1"})
			if err != nil {
				r.Failf("harness", "%s cannot connect: %v", name, err)
				return
			}
			last := r.Now()
			for j, g := range gapSeq {
				simkit.Sleep(g)
				simkit.Pause(r, "idle:"+name)
				var cerr error
				if tp.Chance(1, 2) {
					cerr = c.Ping()
				} else {
					_, cerr = c.Query(fmt.Sprintf("select * from t_plain where id = %d", markerOf(i, j)))
				}
				now := r.Now()
				r.Sched("op", fmt.Sprintf("%d/busy/%v", i, cerr == nil))
				if cerr != nil {
					r.Failf("session-closed-while-active", "%s sent a command %v after its previous one (session timeout %v) and found its session closed: %v; commands so far at gaps %v", name, now-last, timeout, cerr, gapSeq[:j+1])
					return
				}
				last = now
			}
			busyOK++
			r.Probe("session-survived-a-busy-phase-longer-than-the-timeout")
			if ending == "quit" {
				c.Quit()
				return
			}
			// silence: the session must still be there just before the timeout and be gone some time after it
			early := timeout - 1500*time.Millisecond
			simkit.Sleep(early)
			simkit.Pause(r, "idle:"+name)
			if gone := c.NC.(interface{ PeerGone() bool }).PeerGone(); gone {
				r.Failf("fired-early", "%s sent its last command at %v; at %v, %v before the session timeout %v has passed, the proxy had closed the session", name, last, r.Now(), timeout-(r.Now()-last), timeout)
				return
			}
			// registration is applied at the next tick and the wheel fires on tick boundaries: two ticks of slack, generously
			deadline := last + timeout + 2*tick + time.Second
			for r.Now() < deadline {
				simkit.Sleep(time.Second)
				if c.NC.(interface{ PeerGone() bool }).PeerGone() {
					break
				}
			}
			simkit.Pause(r, "idle:"+name)
			if !c.NC.(interface{ PeerGone() bool }).PeerGone() {
				r.Failf("not-fired", "%s sent its last command at %v and stayed silent; at %v (timeout %v, tick %v) the session is still open", name, last, r.Now(), timeout, tick)
				return
			}
			idleClosed++
			r.Probe("silent-session-closed-by-the-idle-timer")
		})
	}
	driveBusy(r, tp, 20000, nil, func() bool { return finished < nClients })
	r.Nontrivial = busyOK > 0
	r.State(simkit.Hash(fmt.Sprint(cfg, busyOK, idleClosed)))
	r.Sample = map[string]interface{}{"config": cfg, "busy_phases_survived": busyOK, "silent_sessions_closed": idleClosed, "trace_head": head(r.Trace(), 25)}
	w.Shutdown()
}
