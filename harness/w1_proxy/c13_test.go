package w1proxy

import (
	"bytes"
	"errors"
	"fmt"
	"math/big"
	"strconv"
	"strings"

	"github.com/XiaoMi/Gaea/models"

	"verif/harness/mycli"
	"verif/harness/myproto"
	"verif/harness/mysim"
	"verif/harness/simkit"
)

// C13: binary-protocol rows carry the same values as the backend's text rows.

func init() {
	worlds["C13"] = &simkit.World{Property: "C13", Run: runC13, Classify: func(*simkit.Run) {}, TraceCap: 2500, MinBudget: 250}
}

// c13kind is a family of column types with text values the backend may return for it.
type c13kind struct {
	name   string
	types  []byte
	signed []string // values when the UNSIGNED flag is not set (or for types without signedness)
	unsign []string // values when the UNSIGNED flag is set (nil: flag does not change the value space)
	cmp    string   // int | float | double | bytes | date | datetime | time
}

func rep(s string, n int) string { return strings.Repeat(s, n) }

var c13kinds = []c13kind{
	{"tinyint", []byte{myproto.TTiny}, []string{"0", "-1", "127", "-128", "5"}, []string{"0", "255", "128", "007"}, "int"},
	{"smallint", []byte{myproto.TShort}, []string{"0", "-1", "32767", "-32768"}, []string{"0", "65535", "32768"}, "int"},
	{"mediumint", []byte{myproto.TInt24}, []string{"0", "-1", "8388607", "-8388608"}, []string{"0", "16777215", "8388608"}, "int"},
	{"int", []byte{myproto.TLong}, []string{"0", "-1", "2147483647", "-2147483648"}, []string{"0", "4294967295", "2147483648", "0000000042"}, "int"},
	{"bigint", []byte{myproto.TLongLong}, []string{"0", "-1", "9223372036854775807", "-9223372036854775808"}, []string{"0", "18446744073709551615", "9223372036854775808"}, "int"},
	{"year", []byte{myproto.TYear}, []string{"0", "1901", "2155", "2024"}, []string{"0", "1901", "2155", "2024"}, "int"},
	{"float", []byte{myproto.TFloat}, []string{"0", "1.5", "-2.25", "0.1", "3.40282e38", "-1.17549e-38", "1e-10", "16777216"}, nil, "float"},
	{"double", []byte{myproto.TDouble}, []string{"0", "1.5", "-1.5", "0.1", "1.7976931348623157e308", "-2.2250738585072014e-308", "1e21", "123456789.125"}, nil, "double"},
	{"decimal", []byte{myproto.TNewDecimal}, []string{"0", "123.456", "-0.001", "99999999999999999999999999999999999999999999999999999999999999999", "-99999999999999999999999999999999999.999999999999999999999999999999", "0.10"}, nil, "decimal"},
	{"string", []byte{myproto.TVarString, myproto.TVarchar, myproto.TString, myproto.TBlob, myproto.TTinyBlob, myproto.TMediumBlob, myproto.TLongBlob, myproto.TJSON, myproto.TBit, myproto.TGeometry},
		[]string{"", "a", "NULL", "it's", "\x00", "a\x00b", "\xff\xfe\xfd", "caf\xc3\xa9", rep("x", 250), rep("y", 251), rep("z", 252), rep("w", 255), rep("v", 256), rep("u", 65535), rep("t", 65536), rep("s", 70000), "2024-02-29", "12", "\xfb", "\xfc\x01"}, nil, "bytes"},
	{"date", []byte{myproto.TDate}, []string{"2024-02-29", "0000-00-00", "9999-12-31", "1000-01-01", "1970-01-01", "2024-00-00"}, nil, "date"},
	{"datetime", []byte{myproto.TDatetime, myproto.TTimestamp}, []string{"2024-02-29 23:59:59", "0000-00-00 00:00:00", "9999-12-31 23:59:59.999999", "2001-09-09 01:46:40.123456", "2001-09-09 01:46:40.1", "2001-09-09 01:46:40.12", "2001-09-09 01:46:40.123", "2001-09-09 01:46:40.000001", "2001-09-09 01:46:40.100000", "1970-01-01 00:00:01", "2020-05-06 00:00:00", "2020-05-06 00:00:00.000000"}, nil, "datetime"},
	{"time", []byte{myproto.TTime}, []string{"12:34:56", "-01:02:03", "838:59:59", "-838:59:59", "00:00:00", "24:00:00", "-24:00:01", "100:00:00.5", "00:00:00.000001", "-00:00:00.123456", "12:34:56.123", "-838:59:59.999999", "25:01:02"}, nil, "time"},
}

type c13cell struct {
	text []byte
	null bool
}

func parseFrac(s string) (int, bool) {
	if len(s) == 0 || len(s) > 6 {
		return 0, false
	}
	f, err := strconv.Atoi((s + "000000")[:6])
	return f, err == nil
}

// c13equal compares a decoded binary value with the text value the backend sent for that column.
func c13equal(cmp string, unsigned bool, text []byte, v mycli.Value) (bool, string) {
	t := string(text)
	switch cmp {
	case "int":
		if unsigned {
			u, err := strconv.ParseUint(t, 10, 64)
			if err != nil {
				return false, "harness: " + err.Error()
			}
			switch v.Kind {
			case "uint":
				return v.U == u, fmt.Sprint(v.U)
			case "int":
				return v.I >= 0 && uint64(v.I) == u, fmt.Sprint(v.I)
			}
			return false, v.Kind
		}
		i, err := strconv.ParseInt(t, 10, 64)
		if err != nil {
			return false, "harness: " + err.Error()
		}
		switch v.Kind {
		case "int":
			return v.I == i, fmt.Sprint(v.I)
		case "uint":
			return i >= 0 && v.U == uint64(i), fmt.Sprint(v.U)
		}
		return false, v.Kind
	case "float":
		f, err := strconv.ParseFloat(t, 32)
		return err == nil && v.Kind == "float" && float32(f) == float32(v.F), fmt.Sprint(float32(v.F))
	case "double":
		f, err := strconv.ParseFloat(t, 64)
		return err == nil && v.Kind == "double" && f == v.F, fmt.Sprint(v.F)
	case "decimal":
		if v.Kind != "bytes" {
			return false, v.Kind
		}
		want, ok1 := new(big.Rat).SetString(t)
		got, ok2 := new(big.Rat).SetString(string(v.B))
		return ok1 && ok2 && want.Cmp(got) == 0, fmt.Sprintf("%q", v.B)
	case "bytes":
		if v.Kind != "bytes" {
			return false, v.Kind
		}
		if len(v.B) > 40 {
			return bytes.Equal(v.B, text), fmt.Sprintf("%d bytes %q...", len(v.B), v.B[:20])
		}
		return bytes.Equal(v.B, text), fmt.Sprintf("%q", v.B)
	case "date", "datetime":
		if v.Kind != "date" {
			return false, v.Kind
		}
		var want [7]int
		frac := ""
		if i := strings.IndexByte(t, '.'); i >= 0 {
			frac, t = t[i+1:], t[:i]
		}
		if len(t) == 10 {
			t += " 00:00:00"
		}
		n, _ := fmt.Sscanf(t, "%d-%d-%d %d:%d:%d", &want[0], &want[1], &want[2], &want[3], &want[4], &want[5])
		if n != 6 {
			return false, "harness: bad datetime text"
		}
		if frac != "" {
			f, ok := parseFrac(frac)
			if !ok {
				return false, "harness: bad fraction"
			}
			want[6] = f
		}
		return v.Date == want, v.String()
	case "time":
		if v.Kind != "time" {
			return false, v.Kind
		}
		neg := strings.HasPrefix(t, "-")
		t = strings.TrimPrefix(t, "-")
		frac := ""
		if i := strings.IndexByte(t, '.'); i >= 0 {
			frac, t = t[i+1:], t[:i]
		}
		var h, m, s, us int
		if n, _ := fmt.Sscanf(t, "%d:%d:%d", &h, &m, &s); n != 3 {
			return false, "harness: bad time text"
		}
		if frac != "" {
			f, ok := parseFrac(frac)
			if !ok {
				return false, "harness: bad fraction"
			}
			us = f
		}
		zero := h == 0 && m == 0 && s == 0 && us == 0
		gotH := int(v.Days)*24 + v.Date[3]
		return gotH == h && v.Date[3] < 24 && v.Date[4] == m && v.Date[5] == s && v.Date[6] == us && (v.Neg == neg || zero), v.String()
	}
	return false, "?"
}

func runC13(r *simkit.Run) {
	tp := r.Tape
	ns := baseNamespace("ns1", 1, 0)
	w, err := NewWorld(r, map[string]*models.Namespace{"ns1": ns}, WorldOpts{})
	if err != nil {
		r.Failf("harness", "NewWorld: %v", err)
		return
	}
	w.Cl.Logf = r.Logf
	r.SetSiteDensity(0, 0)
	// the result the backend returns for the next marked statement
	var cols []myproto.Column
	var rows [][]c13cell
	w.Cl.Exec = func(c *mysim.Conn, st *mysim.Stmt) *mysim.Reply {
		if st.Kind != "select" || !strings.Contains(st.SQL, "t_typed") {
			return nil
		}
		rep := &mysim.Reply{Columns: cols}
		for _, row := range rows {
			var tr [][]byte
			for _, cell := range row {
				if cell.null {
					tr = append(tr, nil)
				} else {
					tr = append(tr, cell.text)
				}
			}
			rep.Rows = append(rep.Rows, tr)
		}
		return rep
	}
	nResults := tp.Range(1, 4)
	finished := false
	compared, errs := 0, 0
	r.Go("client", func() {
		defer func() { finished = true }()
		c, err := w.Connect("", mycli.Options{User: "ns1_rw", Password: "pw_rw", DB: "db1"})
		if err != nil {
			r.Failf("harness", "cannot connect: %v", err)
			return
		}
		for j := 0; j < nResults; j++ {
			nc := tp.Range(1, 7)
			if tp.Chance(1, 8) {
				nc = tp.Range(8, 18) // NULL bitmap longer than one byte
			}
			nr := tp.Range(1, 4)
			cols = nil
			var kinds []c13kind
			var uns []bool
			for k := 0; k < nc; k++ {
				kd := c13kinds[tp.Choose(len(c13kinds))]
				col := myproto.Column{Schema: "db1", Table: "t_typed", OrgTable: "t_typed", Name: fmt.Sprintf("c%d", k), OrgName: fmt.Sprintf("c%d", k), Charset: 45, Length: 255}
				col.Type = kd.types[tp.Choose(len(kd.types))]
				u := false
				if tp.Chance(1, 2) && (kd.unsign != nil || tp.Chance(1, 3)) {
					col.Flags |= myproto.FUnsigned
					u = kd.unsign != nil
				}
				for _, f := range []uint16{myproto.FNotNull, myproto.FBinary, 64 /* zerofill */, 2 /* primary key */, 16 /* blob */, 1024 /* timestamp */, 0x8000 /* num */} {
					if tp.Chance(1, 5) {
						col.Flags |= f
					}
				}
				if kd.cmp == "datetime" || kd.cmp == "time" || kd.cmp == "float" || kd.cmp == "double" {
					col.Decimals = []byte{0, 3, 6, 31}[tp.Choose(4)]
				}
				if kd.cmp == "bytes" && tp.Chance(1, 2) {
					col.Charset = 63
				}
				cols = append(cols, col)
				kinds = append(kinds, kd)
				uns = append(uns, u)
			}
			rows = nil
			big := 0
			for i := 0; i < nr; i++ {
				var row []c13cell
				for k := 0; k < nc; k++ {
					if tp.Chance(1, 5) {
						row = append(row, c13cell{null: true})
						continue
					}
					pool := kinds[k].signed
					if uns[k] {
						pool = kinds[k].unsign
					}
					v := pool[tp.Choose(len(pool))]
					if len(v) > 60000 {
						big++
						if big > 2 {
							v = "small"
						}
					}
					row = append(row, c13cell{text: []byte(v)})
				}
				rows = append(rows, row)
			}
			m := markerOf(0, j)
			sql := fmt.Sprintf("select * from t_typed where id = %d and k = ?", m)
			st, perr := c.Prepare(sql)
			if perr != nil {
				r.Failf("harness", "prepare: %v", perr)
				return
			}
			res, xerr := c.Execute(st, []mycli.Param{mycli.PInt64(1)}, true)
			var colDesc []string
			for k, col := range cols {
				colDesc = append(colDesc, fmt.Sprintf("%s(type 0x%02x flags 0x%x)", kinds[k].name, col.Type, col.Flags))
			}
			r.Sched("op", fmt.Sprintf("exec/%d/%d/%v", nc, nr, xerr == nil))
			r.Logf("result %d: %d rows of %v -> %s", j, nr, colDesc, errText(xerr))
			if xerr != nil {
				var se *myproto.ServerError
				if errors.As(xerr, &se) {
					errs++
					r.Probe("proxy-reported-error")
					c.CloseStmt(st.ID)
					continue
				}
				if c.Dead {
					r.Probe("proxy-closed-connection")
					return
				}
				r.Failf("C13-malformed-binary-row", "columns %v: a row of the binary result is not decodable with the column definitions the proxy sent: %v", colDesc, xerr)
				return
			}
			if len(res) != 1 || len(res[0].Columns) != nc {
				r.Failf("C13-result-shape", "expected one result with %d columns, got %d results", nc, len(res))
				return
			}
			for k := range cols {
				if res[0].Columns[k].Type != cols[k].Type || res[0].Columns[k].Flags&myproto.FUnsigned != cols[k].Flags&myproto.FUnsigned {
					r.Failf("C13-column-definition-changed", "column %d: backend declared type 0x%02x flags 0x%x, the client was told type 0x%02x flags 0x%x", k, cols[k].Type, cols[k].Flags, res[0].Columns[k].Type, res[0].Columns[k].Flags)
					return
				}
			}
			if len(res[0].BinRows) != nr {
				r.Failf("C13-row-count", "backend returned %d rows, the client received %d", nr, len(res[0].BinRows))
				return
			}
			for i, row := range res[0].BinRows {
				for k, v := range row {
					cell := rows[i][k]
					r.Probe("compared-" + kinds[k].name)
					if cell.null || v.Null {
						if cell.null != v.Null {
							r.Failf("C13-value-changed", "row %d column %d (%s): backend sent %s, client decoded %s; columns %v", i, k, colDesc[k], cellText(cell), v.String(), colDesc)
							return
						}
						r.Probe("compared-null")
						continue
					}
					unsignedCmp := cols[k].Flags&myproto.FUnsigned != 0 && kinds[k].cmp == "int"
					ok, got := c13equal(kinds[k].cmp, unsignedCmp, cell.text, v)
					if strings.HasPrefix(got, "harness:") {
						r.Failf("harness", "%s for %q", got, cell.text)
						return
					}
					if !ok {
						r.Failf("C13-value-changed", "row %d column %d (%s): backend sent %s, client decoded %s; columns %v", i, k, colDesc[k], cellText(cell), got, colDesc)
						return
					}
					compared++
				}
			}
			c.CloseStmt(st.ID)
		}
		c.Quit()
	})
	driveBusy(r, tp, 3000, nil, func() bool { return !finished })
	r.Nontrivial = compared > 0
	r.State(simkit.Hash(fmt.Sprint(compared, errs)))
	r.Sample = map[string]interface{}{"values_compared": compared, "results_answered_with_error": errs, "trace_head": head(r.Trace(), 20)}
	w.Shutdown()
}

func cellText(c c13cell) string {
	if c.null {
		return "NULL"
	}
	if len(c.text) > 40 {
		return fmt.Sprintf("%d bytes %q...", len(c.text), c.text[:20])
	}
	return fmt.Sprintf("%q", c.text)
}
