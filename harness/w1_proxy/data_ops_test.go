package w1proxy

import (
	"fmt"
	"math/big"
	"sort"
	"strconv"
	"strings"

	"verif/harness/simkit"
	"verif/harness/sqlmini"
)

// ---------- INSERT (C03) ----------

// insertChecked sends an INSERT/REPLACE through the proxy and checks C03 on the physical tables.
// special[i] != "" replaces the sharding value of row i by that expression text (its value is rows[i][key]).
func (d *dataWorld) insertChecked(tp *simkit.Tape, rows [][]sqlmini.Value, special []string, stats map[string]int) bool {
	return d.insertCheckedInto(tp, d.rule.table, d.keyIndex(), rows, special, stats)
}

// insertCheckedInto sends an INSERT for the sharded table or its linked child (whose sharding column may be another
// one) and checks that each row is stored exactly once, where a point query on its sharding value finds it.
func (d *dataWorld) insertCheckedInto(tp *simkit.Tape, table string, keyIdx int, rows [][]sqlmini.Value, special []string, stats map[string]int) bool {
	rule := d.rule
	before := d.snapshot(rule.db, table)
	sql := insertSQL(table, rows, false)
	if special != nil {
		// rebuild with expression texts in place of the sharding values
		var vs []string
		for i, row := range rows {
			var c []string
			for k, v := range row {
				if k == keyIdx && special[i] != "" {
					c = append(c, special[i])
				} else {
					c = append(c, lit(v))
				}
			}
			vs = append(vs, "("+strings.Join(c, ", ")+")")
		}
		sql = fmt.Sprintf("insert into %s (%s) values %s", table, strings.Join(dataCols, ", "), strings.Join(vs, ", "))
	} else if len(rows) == 1 && tp.Chance(1, 4) {
		var sets []string
		for k, v := range rows[0] {
			sets = append(sets, dataCols[k]+" = "+lit(v))
		}
		sql = fmt.Sprintf("insert into %s set %s", table, strings.Join(sets, ", "))
	}
	o := d.run(sql)
	after := d.snapshot(rule.db, table)
	d.r.Sched("op", fmt.Sprintf("insert/%d/%v", len(rows), o.err == nil))
	d.r.Logf("%q -> %s; backends: %q", sql, errText(o.err), o.recvSQL)
	if o.err != nil && !o.refused {
		d.fail("harness", "transport error on insert: %v", o.err)
		return false
	}
	if o.err != nil && d.faulted {
		// a backend connection broke: some slices may hold their rows, but no row twice; the reference follows the shards
		stats["insert-failed-under-fault"]++
		have := map[string]int{}
		for _, x := range flatten(before) {
			have[x]--
		}
		for _, x := range flatten(after) {
			have[x]++
		}
		stmtRows := map[string]int{}
		for _, x := range multiset(rows) {
			stmtRows[x]++
		}
		for x, n := range have {
			if n < 0 || n > stmtRows[x] {
				if d.fail("C03-rows-not-stored-exactly-once", "%q failed with %v after a backend connection broke; row %s is now stored %+d times more than before (the statement carries it %d times)", sql, o.err, x, n, stmtRows[x]) {
					return false
				}
			}
		}
		rt := d.ref.Get(rule.db, table)
		for _, row := range rows {
			if have[rowKey(row)] > 0 {
				have[rowKey(row)]--
				rt.Rows = append(rt.Rows, append([]sqlmini.Value{}, row...))
			}
		}
		return true
	}
	if o.err != nil {
		stats["insert-rejected"]++
		if !sameStrings(flatten(before), flatten(after)) {
			if d.fail("C03-rejected-insert-changed-data", "%q was answered with %v but the physical tables changed: before %v after %v", sql, o.err, flatten(before), flatten(after)) {
				return false
			}
		}
		return true
	}
	stats["insert-accepted"]++
	if rule.inRange != nil {
		for _, row := range rows {
			if k := row[keyIdx]; !rule.inRange(k) {
				stats["insert-out-of-range-key"]++
				if d.fail("C03-unroutable-row-accepted", "%q was accepted although the sharding value %s of row %v lies outside every configured range of the %s rule (%+v)", sql, k.String(), rowKey(row), rule.typ, *rule.shard) {
					return false
				}
			}
		}
	}
	want := append([]string{}, flatten(before)...)
	want = append(want, multiset(rows)...)
	sort.Strings(want)
	if !sameStrings(want, flatten(after)) {
		if d.fail("C03-rows-not-stored-exactly-once", "%q was accepted; rows of the statement: %v; all physical tables before: %v; after: %v; backends received %q", sql, multiset(rows), flatten(before), flatten(after), o.recvSQL) {
			return false
		}
		// keep the reference in step with what is really stored is impossible now: stop this run quietly
		return false
	}
	rt := d.ref.Get(rule.db, table)
	for _, row := range rows {
		rt.Rows = append(rt.Rows, append([]sqlmini.Value{}, row...))
	}
	// every row sits where a point query on its key looks
	for _, row := range rows {
		k := row[keyIdx]
		if k.Null {
			continue
		}
		q := fmt.Sprintf("select * from %s where %s = %s and id = %s", table, dataCols[keyIdx], lit(k), lit(row[0]))
		p := d.run(q)
		found := false
		if p.err == nil && p.res != nil {
			for _, got := range p.res.Rows {
				if canonRow(got) == canonRef(row) {
					found = true
				}
			}
		}
		if !found {
			n := -1
			if p.res != nil {
				n = len(p.res.Rows)
			}
			if d.fail("C03-row-not-where-lookups-look", "row %v was stored by %q but the point query %q does not return it (%d rows, %v); it was sent to %q", rowKey(row), sql, q, n, errText(p.err), p.recvSQL) {
				return false
			}
		}
	}
	stats["checked"]++
	return true
}

func (d *dataWorld) populate(tp *simkit.Tape, stats map[string]int) bool {
	keys := append([]sqlmini.Value{}, d.rule.keys...)
	perm := tp.Perm(len(keys))
	n := tp.Range(len(keys)/2, len(keys))
	var batch [][]sqlmini.Value
	for i := 0; i < n; i++ {
		batch = append(batch, d.newRow(tp, keys[perm[i]]))
		if len(batch) >= tp.Range(1, 4) || i == n-1 {
			if !d.insertChecked(tp, batch, nil, stats) {
				return false
			}
			batch = nil
		}
	}
	// a second row for some keys (duplicates of the sharding value)
	for i := 0; i < 3; i++ {
		if !d.insertChecked(tp, [][]sqlmini.Value{d.newRow(tp, keys[tp.Choose(len(keys))])}, nil, stats) {
			return false
		}
	}
	// rows of the linked child table for some keys (placed by the parent's rule)
	if d.child != "" {
		for i := 0; i < 6; i++ {
			row := d.newChildRow(tp, keys[tp.Choose(len(keys))])
			sql := insertSQL(d.child, [][]sqlmini.Value{row}, false)
			o := d.run(sql)
			d.r.Logf("%q -> %s", sql, errText(o.err))
			if o.err == nil {
				d.ref.Get(d.rule.db, d.child).Rows = append(d.ref.Get(d.rule.db, d.child).Rows, append([]sqlmini.Value{}, row...))
			} else if !o.refused {
				d.fail("harness", "populating %s: %v", d.child, o.err)
				return false
			}
		}
	}
	// the global and the unsharded table
	for i := 0; i < 4; i++ {
		d.nextID++
		row := d.newRow(tp, sqlmini.Int(d.nextID))
		row[0] = sqlmini.Int(d.nextID)
		row[4] = sqlmini.Str("2014-05-01")
		for _, t := range []string{"t_plain", d.global} {
			if t == "" {
				continue
			}
			sql := insertSQL(t, [][]sqlmini.Value{row}, false)
			if o := d.run(sql); o.err != nil {
				if t == d.global && strings.Contains(o.err.Error(), "doesn't exist") {
					// a backend that holds no copy of the global table was asked to write one
					d.fail("C04-write-not-on-every-copy-once", "%q on the global table failed: %v; the copies are %v, the statement went to %q", sql, o.err, d.globalCopies(), o.recvSQL)
					return false
				}
				d.fail("harness", "populating %s: %v", t, o.err)
				return false
			}
			d.ref.Get(d.rule.db, t).Rows = append(d.ref.Get(d.rule.db, t).Rows, append([]sqlmini.Value{}, row...))
		}
	}
	return true
}

func (d *dataWorld) opInsert(tp *simkit.Tape, stats map[string]int) {
	keys := d.rule.keys
	n := tp.Range(1, 4)
	var rows [][]sqlmini.Value
	var special []string
	anySpecial := false
	for i := 0; i < n; i++ {
		k := keys[tp.Choose(len(keys))]
		sp := ""
		if tp.Chance(1, 3) {
			// sharding values that are not plain literals
			if k.IsS {
				switch tp.Choose(3) {
				case 0:
					k, sp = sqlmini.Null(), "NULL"
				case 1:
					sp = "concat(" + lit(k) + ")"
				default:
					sp = "(" + lit(k) + ")"
				}
			} else {
				switch tp.Choose(7) {
				case 6:
					k, sp = sqlmini.Int(-k.I-1), fmt.Sprintf("'-%d'", k.I+1)
				case 0:
					k, sp = sqlmini.Int(-k.I-1), fmt.Sprintf("-%d", k.I+1)
				case 1:
					sp = fmt.Sprintf("%d+1", k.I-1)
				case 2:
					sp = fmt.Sprintf("abs(%d)", k.I)
				case 3:
					k, sp = sqlmini.Null(), "NULL"
				case 4:
					sp = fmt.Sprintf("'%d'", k.I)
				default:
					sp = fmt.Sprintf("(%d)", k.I)
				}
			}
			anySpecial = true
			stats["insert-special-sharding-value"]++
		}
		row := d.newRow(tp, k)
		rows = append(rows, row)
		special = append(special, sp)
	}
	if !anySpecial {
		special = nil
	}
	if len(rows) > 1 && tp.Chance(1, 4) {
		// one backend's connection breaks when its part of the statement arrives
		d.breakInsertOn = stripAddr(d.w.NS["ns1"].Slices[tp.Choose(d.rule.nSlices)].Master)
		d.faulted = true
	}
	if d.child != "" && special == nil && !d.faulted && tp.Chance(1, 4) {
		// the same rows into the linked child table: placed by the parent's rule applied to the child's own sharding column
		for i, row := range rows {
			rows[i] = d.asChildRow(row, row[d.keyIndex()])
		}
		stats["insert-into-linked-child"]++
		d.insertCheckedInto(tp, d.child, d.childKeyIndex(), rows, nil, stats)
		return
	}
	d.insertChecked(tp, rows, special, stats)
	d.breakInsertOn, d.faulted = "", false
}

func (d *dataWorld) childKeyIndex() int {
	for i, c := range dataCols {
		if c == d.childKey {
			return i
		}
	}
	return 0
}

// asChildRow turns a row drawn for the parent into a row of the child with the same sharding value
func (d *dataWorld) asChildRow(row []sqlmini.Value, key sqlmini.Value) []sqlmini.Value {
	out := append([]sqlmini.Value{}, row...)
	if ci := d.childKeyIndex(); ci != d.keyIndex() {
		d.nextID++
		out[d.keyIndex()] = sqlmini.Int(d.nextID) // the parent's key column is an ordinary column here
		out[ci] = key
	}
	return out
}

func (d *dataWorld) newChildRow(tp *simkit.Tape, key sqlmini.Value) []sqlmini.Value {
	return d.asChildRow(d.newRow(tp, key), key)
}

// ---------- conditions (C01 grammar) ----------

func (d *dataWorld) atom(tp *simkit.Tape) string {
	rule := d.rule
	k := func() string { return lit(rule.keys[tp.Choose(len(rule.keys))]) }
	col := rule.key
	if tp.Chance(1, 4) {
		// another column
		switch tp.Choose(3) {
		case 0:
			return fmt.Sprintf("g = %d", tp.Choose(4))
		case 1:
			return fmt.Sprintf("v %s %d", []string{"<", ">", ">=", "<>"}[tp.Choose(4)], tp.Choose(30)-5)
		default:
			return fmt.Sprintf("name = %s", lit(sqlmini.Str(dataNames[tp.Choose(len(dataNames))])))
		}
	}
	if tp.Chance(1, 5) {
		col = rule.table + "." + col
	}
	switch tp.Choose(10) {
	case 0, 1:
		return col + " = " + k()
	case 2:
		return col + " <> " + k()
	case 3:
		return col + " < " + k()
	case 4:
		return col + " <= " + k()
	case 5:
		return col + " > " + k()
	case 6:
		return col + " >= " + k()
	case 7:
		var l []string
		for i := 0; i < tp.Range(1, 4); i++ {
			l = append(l, k())
		}
		not := ""
		if tp.Chance(1, 3) {
			not = "not "
		}
		return col + " " + not + "in (" + strings.Join(l, ", ") + ")"
	case 8:
		not := ""
		if tp.Chance(1, 3) {
			not = "not "
		}
		return col + " " + not + "between " + k() + " and " + k()
	default:
		return k() + " " + []string{"=", "<", ">=", ">"}[tp.Choose(4)] + " " + col
	}
}

func (d *dataWorld) condition(tp *simkit.Tape, depth int) string {
	if depth <= 0 || tp.Chance(2, 5) {
		return d.atom(tp)
	}
	switch tp.Choose(5) {
	case 0, 1:
		return d.condition(tp, depth-1) + " and " + d.condition(tp, depth-1)
	case 2, 3:
		return "(" + d.condition(tp, depth-1) + " or " + d.condition(tp, depth-1) + ")"
	default:
		return "not (" + d.condition(tp, depth-1) + ")"
	}
}

// qualified is condition with every column qualified by the sharded table's name (for statements naming two tables).
func (d *dataWorld) qualified(tp *simkit.Tape, depth int) string {
	c := d.condition(tp, depth)
	t := d.rule.table
	for _, col := range []string{"id", "g", "v", "name", "ct"} {
		// qualify bare column names (not already qualified, not inside string literals: the literals of the universe never contain these words followed by an operator)
		c = qualifyCol(c, col, t)
	}
	return c
}

func qualifyCol(c, col, t string) string {
	var sb strings.Builder
	inStr := false
	for i := 0; i < len(c); i++ {
		ch := c[i]
		if ch == '\'' {
			inStr = !inStr
		}
		if !inStr && strings.HasPrefix(c[i:], col) && (i == 0 || !isWordByte(c[i-1]) && c[i-1] != '.') && (i+len(col) == len(c) || !isWordByte(c[i+len(col)])) {
			sb.WriteString(t + "." + col)
			i += len(col) - 1
			continue
		}
		sb.WriteByte(ch)
	}
	return sb.String()
}

func isWordByte(b byte) bool {
	return b == '_' || (b >= 'a' && b <= 'z') || (b >= 'A' && b <= 'Z') || (b >= '0' && b <= '9')
}

// holders: physical tables of the sharded table holding at least one row that satisfies the condition.
func (d *dataWorld) holders(cond string) ([]string, error) {
	var out []string
	for key := range d.physTables(d.rule.db, d.rule.table) {
		addr, dbt, _ := strings.Cut(key, "|")
		db, tbl, _ := strings.Cut(dbt, ".")
		// the condition may qualify columns with the logical table name: evaluate under that alias
		res, err := d.stores[addr].Exec(fmt.Sprintf("select id from `%s`.`%s` as %s where %s", db, tbl, d.rule.table, cond), db)
		if err != nil {
			return nil, err
		}
		if len(res.Rows) > 0 {
			out = append(out, key)
		}
	}
	sort.Strings(out)
	return out, nil
}

func (d *dataWorld) checkRouting(kind, sql, cond string, holders []string, o *opResult, stats map[string]int) bool {
	for _, h := range holders {
		if o.received[h] == 0 {
			var got []string
			for k := range o.received {
				got = append(got, k)
			}
			sort.Strings(got)
			return !d.fail("C01-table-with-matching-rows-not-reached", "%s %q: physical table %s holds rows satisfying the condition but did not receive the statement; it was sent to %v (rule %s, shard %+v)", kind, sql, h, got, d.rule.typ, *d.rule.shard)
		}
	}
	stats["routing-checked"]++
	return true
}

// ---------- SELECT (C01, C02, C06) ----------

func cellEqual(got []byte, want sqlmini.Value) bool {
	if want.Null || got == nil {
		return want.Null && got == nil
	}
	if string(got) == string(want.Text()) {
		return true
	}
	// numerically equal decimals ("28" / "28.0")
	a, ok1 := new(big.Rat).SetString(string(got))
	b, ok2 := new(big.Rat).SetString(string(want.Text()))
	return !want.IsS && ok1 && ok2 && a.Cmp(b) == 0
}

func textRow(row [][]byte) string {
	var s []string
	for _, c := range row {
		if c == nil {
			s = append(s, "NULL")
		} else {
			s = append(s, fmt.Sprintf("%q", c))
		}
	}
	return strings.Join(s, ",")
}

func canonRow(row [][]byte) string {
	var s []string
	for _, c := range row {
		if c == nil {
			s = append(s, "NULL")
			continue
		}
		if r, ok := new(big.Rat).SetString(string(c)); ok && len(c) > 0 && (c[0] == '-' || (c[0] >= '0' && c[0] <= '9')) && !strings.ContainsAny(string(c), "eE/") {
			s = append(s, "#"+r.RatString())
			continue
		}
		s = append(s, fmt.Sprintf("%q", c))
	}
	return strings.Join(s, ",")
}

func canonRef(row []sqlmini.Value) string {
	var t [][]byte
	for _, v := range row {
		t = append(t, v.Text())
	}
	return canonRow(t)
}

func (d *dataWorld) opSelect(tp *simkit.Tape, stats map[string]int) {
	rule := d.rule
	cond := d.condition(tp, 3)
	t := rule.table
	pickAhead := tp.Choose(23)
	if pickAhead >= 13 {
		cond = d.qualified(tp, 2) // every column carries its table: the statement names two tables with the same columns
	}
	var sql string
	ordered := 0 // number of leading result columns that form the ORDER BY key (0: unordered)
	desc := []bool{}
	shape := ""
	pick := pickAhead
	if pick == 4 && simkit.Params["partition"] == "strict" {
		pick = 5 // the strict partition leaves out the statements of known finding C02-F1
	}
	if pick >= 19 && pick <= 20 && simkit.Params["partition"] == "strict" {
		pick = 8 // (known finding C02-F4)
	}
	switch pick {
	case 0, 1:
		shape, sql = "star", fmt.Sprintf("select * from %s where %s", t, cond)
	case 2:
		shape = "order-limit"
		dsc := tp.Chance(1, 2)
		sql = fmt.Sprintf("select id, name, v from %s where %s order by id", t, cond)
		if dsc {
			sql += " desc"
		}
		ordered, desc = 1, []bool{dsc}
		if tp.Chance(2, 3) {
			sql += fmt.Sprintf(" limit %d", tp.Range(1, 5))
			if tp.Chance(1, 2) {
				sql = strings.Replace(sql, " limit ", fmt.Sprintf(" limit %d, ", tp.Range(0, 3)), 1)
			}
		}
	case 3:
		shape, sql = "aggregates", fmt.Sprintf("select count(*), sum(v), max(v), min(v), count(v) from %s where %s", t, cond)
	case 4:
		shape, sql = "aggregates-distinct", fmt.Sprintf("select count(distinct g), max(name), min(name), sum(distinct g) from %s where %s", t, cond)
	case 5:
		shape = "group-by"
		sql = fmt.Sprintf("select g, count(*), sum(v), max(v) from %s where %s group by g order by g", t, cond)
		ordered, desc = 1, []bool{false}
	case 6:
		shape = "group-by-string"
		sql = fmt.Sprintf("select name, g, count(*) from %s where %s group by name, g", t, cond)
	case 7:
		shape, sql = "distinct", fmt.Sprintf("select distinct g, name from %s where %s", t, cond)
	case 8:
		shape = "order-by-two-keys"
		d1, d2 := tp.Chance(1, 2), tp.Chance(1, 2)
		sql = fmt.Sprintf("select g, v, id from %s where %s order by g %s, v %s", t, cond, map[bool]string{true: "desc", false: "asc"}[d1], map[bool]string{true: "desc", false: "asc"}[d2])
		ordered, desc = 2, []bool{d1, d2}
	case 18:
		shape = "order-by-position"
		dsc := tp.Chance(1, 2)
		sql = fmt.Sprintf("select v, id, name from %s where %s order by 1%s, 2", t, cond, map[bool]string{true: " desc", false: ""}[dsc])
		ordered, desc = 2, []bool{dsc, false}
	case 19, 20:
		// groups ordered by an aggregate: the order exists only after the per-shard groups were merged
		shape = "group-by-order-by-aggregate"
		dsc := tp.Chance(1, 2)
		sql = fmt.Sprintf("select count(*), g from %s where %s group by g order by count(*)%s, g", t, cond, map[bool]string{true: " desc", false: ""}[dsc])
		ordered, desc = 2, []bool{dsc, false}
		if pick == 20 {
			shape = "group-by-order-by-aggregate-limit"
			sql += fmt.Sprintf(" limit %d", tp.Range(1, 2))
		}
	case 22:
		// a wildcard in front of an aggregate: the aggregate's position in the result is not its position in the text
		shape = "star-before-aggregate"
		sql = fmt.Sprintf("select *, count(*) from %s where %s group by id, g, v, name, ct", t, cond)
	case 21:
		// groups ordered by the alias of a selected SUM (a DECIMAL in MySQL)
		shape = "group-by-order-by-sum-alias"
		sql = fmt.Sprintf("select sum(v) as s, g from %s where %s and v is not null group by g order by s, g", t, cond)
		ordered, desc = 2, []bool{false, false}
	case 15:
		// the ORDER BY column carries its table (or database and table): the field the proxy adds for merging must be written for each sub-table
		shape = "order-by-qualified-column"
		q := []string{t, rule.db + "." + t}[tp.Choose(2)]
		dsc := tp.Chance(1, 2)
		sql = fmt.Sprintf("select name, v from %s where %s order by %s.id", t, cond, q)
		if tp.Chance(1, 2) {
			sql = fmt.Sprintf("select id, name, v from %s where %s order by %s.id", t, cond, q)
			ordered = 1
		}
		if dsc {
			sql += " desc"
		}
		desc = []bool{dsc}
	case 16:
		// a table-qualified column inside a function call or arithmetic
		shape = "qualified-column-in-expression"
		q := []string{t, rule.db + "." + t}[tp.Choose(2)]
		sql = fmt.Sprintf("select id, v from %s where abs(%s.v) >= %d and (%s)", t, q, tp.Choose(12), cond)
		if tp.Chance(1, 2) {
			sql = fmt.Sprintf("select id, v from %s where %s.v + 1 > %d and (%s)", t, q, tp.Choose(12), cond)
		}
	case 17:
		shape = "group-by-qualified-column"
		sql = fmt.Sprintf("select g, count(*), sum(v) from %s where %s group by %s.g", t, cond, t)
	case 13, 14:
		// joins on the sharding key with the linked child table, or with the global table
		switch {
		case pick == 13 && d.child != "":
			shape = "join-linked-child"
			kind := []string{"join", "left join"}[tp.Choose(2)]
			sql = fmt.Sprintf("select %s.id, %s.%s, c.id, c.v from %s %s %s c on %s.%s = c.%s where %s", t, t, rule.key, t, kind, d.child, t, rule.key, d.childKey, cond)
			if tp.Chance(1, 3) {
				sql = fmt.Sprintf("select %s.g, count(*), sum(c.v) from %s join %s c on %s.%s = c.%s where %s group by %s.g", t, t, d.child, t, rule.key, d.childKey, cond, t)
			}
		case d.global != "":
			shape = "join-global"
			sql = fmt.Sprintf("select %s.id, %s.v, gt.name from %s join %s gt on %s.g = gt.g where %s", t, t, t, d.global, t, cond)
			if tp.Chance(1, 3) {
				sql = fmt.Sprintf("select %s.id, gt.v from %s, %s gt where %s.g = gt.g and (%s)", t, t, d.global, t, cond)
			}
		default:
			shape, sql = "star", fmt.Sprintf("select * from %s where %s", t, cond)
		}
	case 10:
		shape, sql = "aggregates-string", fmt.Sprintf("select max(name), min(name), count(name) from %s where %s", t, cond)
	case 11:
		shape = "union-mixed"
		sql = fmt.Sprintf("select id, g from %s where %s", t, cond)
		for i := 0; i < tp.Range(2, 3); i++ {
			sql += []string{" union ", " union all "}[tp.Choose(2)] + fmt.Sprintf("select id, g from %s where %s", t, d.condition(tp, 1))
		}
	default:
		shape = "union"
		all := ""
		if tp.Chance(1, 2) {
			all = " all"
		}
		sql = fmt.Sprintf("select id, g from %s where %s union%s select id, g from %s where %s", t, cond, all, t, d.condition(tp, 2))
	}
	var hold []string
	if !strings.HasPrefix(shape, "union") && !strings.HasPrefix(shape, "join") {
		var herr error
		hold, herr = d.holders(cond)
		if herr != nil {
			d.fail("harness", "evaluating %q on the physical tables: %v", cond, herr)
			return
		}
	}
	ref, rerr := d.ref.Exec(sql, rule.db)
	o := d.run(sql)
	d.r.Sched("op", fmt.Sprintf("select/%s/%v", shape, o.err == nil))
	d.r.Logf("%q -> %s; backends: %q", sql, errText(o.err), o.recvSQL)
	stats["select-"+shape]++
	if o.err != nil {
		if !o.refused {
			d.fail("harness", "transport error on select: %v", o.err)
		}
		stats["select-rejected"]++
		return
	}
	if rerr != nil {
		d.fail("harness", "reference cannot evaluate %q: %v", sql, rerr)
		return
	}
	for _, row := range o.res.Rows {
		for _, c := range row {
			if string(c) == "666001" || string(c) == "poison" {
				if d.fail("C06-decoy-row-returned", "%q returned a row of the decoy table that carries the logical name on the default slice: %s", sql, textRow(row)) {
					return
				}
			}
		}
	}
	if !strings.HasPrefix(shape, "union") && !strings.HasPrefix(shape, "join") && !d.checkRouting("select", sql, cond, hold, o, stats) {
		return
	}
	// C02: the result equals the reference
	if len(o.res.Rows) > 0 && len(o.res.Columns) != len(ref.Cols) {
		d.fail("C02-column-count", "%q: the client received %d columns, the statement projects %d", sql, len(o.res.Columns), len(ref.Cols))
		return
	}
	var got, want []string
	for _, row := range o.res.Rows {
		got = append(got, canonRow(row))
	}
	for _, row := range ref.Rows {
		want = append(want, canonRef(row))
	}
	if ordered == 0 || !strings.Contains(sql, " limit ") {
		g2, w2 := append([]string{}, got...), append([]string{}, want...)
		sort.Strings(g2)
		sort.Strings(w2)
		if !sameStrings(g2, w2) {
			if shape == "aggregates-distinct" && len(o.received) > 1 {
				d.finding = "C02-F1"
			}
			// (an aggregate over an empty route was finding C02-F2 until fix 7a7be03: a recurrence is a violation)
			d.orderFinding(shape, o)
			d.fail("C02-result-differs-from-single-database", "%q (rule %s): the proxy returned %d rows %v; one database holding all shards returns %d rows %v; backends received %q", sql, rule.typ, len(got), clip(got), len(want), clip(want), o.recvSQL)
			return
		}
	}
	if ordered > 0 {
		// the sequence of ORDER BY key tuples must be the reference's (ties may permute the other columns)
		keyOf := func(canon string) string { return strings.Join(strings.SplitN(canon, ",", ordered+1)[:ordered], ",") }
		_ = desc
		if len(got) != len(want) {
			d.orderFinding(shape, o)
			d.fail("C02-result-differs-from-single-database", "%q: %d rows, the reference has %d: %v vs %v", sql, len(got), len(want), clip(got), clip(want))
			return
		}
		for i := range got {
			if keyOf(got[i]) != keyOf(want[i]) {
				d.orderFinding(shape, o)
				d.fail("C02-result-order", "%q: row %d has ORDER BY key %s, one database returns key %s there; proxy rows %v, reference rows %v", sql, i, keyOf(got[i]), keyOf(want[i]), clip(got), clip(want))
				return
			}
		}
		if i := strings.Index(sql, " limit "); i >= 0 {
			// rows with equal keys may come in any order, so LIMIT may cut a tie group differently: every
			// returned row must be a row of the unlimited result, as often as it occurs there
			full, ferr := d.ref.Exec(sql[:i], rule.db)
			if ferr != nil {
				d.fail("harness", "reference: %v", ferr)
				return
			}
			avail := map[string]int{}
			for _, row := range full.Rows {
				avail[canonRef(row)]++
			}
			for _, g := range got {
				if avail[g] == 0 {
					d.orderFinding(shape, o)
					d.fail("C02-result-differs-from-single-database", "%q: the proxy returned row %s, which one database holding all shards does not return (or returns less often); proxy rows %v, reference rows %v", sql, g, clip(got), clip(want))
					return
				}
				avail[g]--
			}
		}
	}
	stats["checked"]++
	stats["result-compared"]++
}

// orderFinding names the known finding whose predicate a violation about to be reported satisfies.
func (d *dataWorld) orderFinding(shape string, o *opResult) {
	if len(o.received) < 2 {
		return
	}
	// (ORDER BY <position> was finding C02-F3 until fix 411f53a repaired it: a recurrence is a violation)
	if strings.HasPrefix(shape, "group-by-order-by-aggregate") {
		d.finding = "C02-F4"
	}
}

func clip(s []string) []string {
	if len(s) > 14 {
		return append(append([]string{}, s[:14]...), fmt.Sprintf("... %d more", len(s)-14))
	}
	return s
}

// ---------- UPDATE / DELETE (C01, C05) ----------

func idsPerTable(m map[string]*sqlmini.Table) map[string]string {
	out := map[string]string{} // id -> table
	for k, t := range m {
		for _, r := range t.Rows {
			out[r[0].String()] = k
		}
	}
	return out
}

func (d *dataWorld) opModify(tp *simkit.Tape, stats map[string]int) {
	rule := d.rule
	cond := d.condition(tp, 2)
	t := rule.table
	var sql, kind string
	mustReject := false
	switch tp.Choose(6) {
	case 0, 1:
		kind, sql = "update", fmt.Sprintf("update %s set v = %d where %s", t, tp.Choose(50), cond)
	case 2:
		kind, sql = "update", fmt.Sprintf("update %s set name = %s, g = %d where %s", t, lit(sqlmini.Str(dataNames[tp.Choose(len(dataNames))])), tp.Choose(4), cond)
	case 3:
		// assigning the sharding column must be refused
		kind, mustReject = "update-sharding-column", true
		target := rule.key
		tref, sqlCond := t, ""
		switch tp.Choose(5) {
		case 1:
			target = t + "." + rule.key
		case 2:
			target = strings.ToUpper(rule.key)
		case 3:
			// through an alias
			tref, target, cond, sqlCond = t+" as xa", "xa."+rule.key, "g = 1", "xa.g = 1"
		}
		if sqlCond == "" {
			sqlCond = cond
		}
		if d.child != "" && d.childKey == rule.key && tp.Chance(1, 4) {
			// the linked child table is placed by the same key: assigning it must be refused as well
			tref = d.child
			target = strings.Replace(target, t+".", d.child+".", 1)
			cond, sqlCond = "g = -99", "g = 1"
			if strings.HasPrefix(target, "xa.") {
				tref, sqlCond = d.child+" as xa", "xa.g = 1"
			}
			kind = "update-sharding-column-of-linked-table"
		}
		sql = fmt.Sprintf("update %s set v = 1, %s = %s where %s", tref, target, lit(rule.keys[tp.Choose(len(rule.keys))]), sqlCond)
		if tp.Chance(1, 4) {
			// the same through INSERT ... ON DUPLICATE KEY UPDATE
			row := d.newRow(tp, rule.keys[tp.Choose(len(rule.keys))])
			d.nextID--
			rhs := lit(rule.keys[tp.Choose(len(rule.keys))])
			if tp.Chance(1, 2) {
				rhs = "values(v)"
			}
			kind = "insert-on-duplicate-sharding-column"
			sql = insertSQL(t, [][]sqlmini.Value{row}, false) + fmt.Sprintf(" on duplicate key update %s = %s", rule.key, rhs)
			cond = "g = -99"
		}
	default:
		kind, sql = "delete", fmt.Sprintf("delete from %s where %s", t, cond)
	}
	if !mustReject && tp.Chance(1, 3) {
		// the forms the property lists: schema qualification, a table alias, ORDER BY without LIMIT
		switch tp.Choose(3) {
		case 0:
			sql = strings.Replace(sql, " "+t+" ", " "+rule.db+"."+t+" ", 1)
			stats["modify-schema-qualified"]++
		case 1:
			if kind == "update" {
				sql = strings.Replace(sql, " "+t+" set ", " "+t+" as ua set ", 1)
				stats["modify-through-alias"]++
			}
		default:
			sql += " order by id"
			stats["modify-with-order-by"]++
		}
	}
	hold, herr := d.holders(cond)
	if herr != nil {
		d.fail("harness", "evaluating %q: %v", cond, herr)
		return
	}
	before := d.snapshot(rule.db, t)
	idsBefore := idsPerTable(d.physTables(rule.db, t))
	o := d.run(sql)
	after := d.snapshot(rule.db, t)
	d.r.Sched("op", fmt.Sprintf("%s/%v", kind, o.err == nil))
	d.r.Logf("%q -> %s; backends: %q", sql, errText(o.err), o.recvSQL)
	stats[kind]++
	if o.err != nil && !o.refused {
		d.fail("harness", "transport error: %v", o.err)
		return
	}
	if mustReject {
		if o.err == nil {
			d.fail("C05-sharding-column-assignment-accepted", "%q assigns the sharding column %s and was accepted; backends received %q", sql, rule.key, o.recvSQL)
		} else if !sameStrings(flatten(before), flatten(after)) {
			d.fail("C05-rejected-statement-changed-data", "%q was rejected but the physical tables changed", sql)
		}
		if o.err == nil {
			// the reference cannot follow a statement that moves rows: stop this run
			d.c.NC.Close()
			d.c.Dead = true
		}
		return
	}
	if o.err != nil {
		stats["modify-rejected"]++
		if !sameStrings(flatten(before), flatten(after)) {
			d.fail("C05-rejected-statement-changed-data", "%q was rejected (%v) but the physical tables changed", sql, o.err)
		}
		return
	}
	if !d.checkRouting(kind, sql, cond, hold, o, stats) {
		return
	}
	ref, rerr := d.ref.Exec(sql, rule.db)
	if rerr != nil {
		d.fail("harness", "reference cannot execute %q: %v", sql, rerr)
		return
	}
	want := multiset(d.ref.Get(rule.db, t).Rows)
	if !sameStrings(want, flatten(after)) {
		d.fail("C05-shards-differ-from-single-database", "after %q the union of the physical tables is %v; one database holding all shards would hold %v; backends received %q", sql, clip(flatten(after)), clip(want), o.recvSQL)
		return
	}
	if o.res == nil || o.res.OK == nil || o.res.OK.Affected != ref.Affected {
		got := int64(-1)
		if o.res != nil && o.res.OK != nil {
			got = int64(o.res.OK.Affected)
		}
		d.fail("C05-affected-rows", "%q reported %d affected rows; one database holding all shards changes %d", sql, got, ref.Affected)
		return
	}
	for id, tbl := range idsPerTable(d.physTables(rule.db, t)) {
		if b, ok := idsBefore[id]; ok && b != tbl {
			d.fail("C05-row-moved", "%q moved row %s from %s to %s", sql, id, b, tbl)
			return
		}
	}
	stats["checked"]++
	stats["modify-compared"]++
}

// ---------- global tables (C04) ----------

func (d *dataWorld) globalCopies() []string {
	var out []string
	ns := d.w.NS["ns1"]
	if d.rule.mycat {
		for i, db := range d.gcopies {
			sl := ns.Slices[i/d.rule.perSlice]
			out = append(out, stripAddr(sl.Master)+"|"+sqlmini.Key(db, d.global))
		}
	} else {
		for i := 0; i < d.rule.nSlices; i++ {
			out = append(out, stripAddr(ns.Slices[i].Master)+"|"+sqlmini.Key(d.physDB(d.gdb), d.global))
		}
	}
	sort.Strings(out)
	return out
}

func (d *dataWorld) opGlobal(tp *simkit.Tape, stats map[string]int) {
	g := d.global
	name := g
	switch tp.Choose(4) {
	case 1:
		name = d.gdb + "." + g
	case 2:
		name = "`" + g + "`"
	}
	if d.sessDB != d.gdb {
		name = d.gdb + "." + g
	}
	// a condition with a qualified IN list
	inCond := func(q string) string {
		not := ""
		if tp.Chance(1, 3) {
			not = "not "
		}
		return fmt.Sprintf("%sg %sin (%d, %d)", q, not, tp.Choose(4), tp.Choose(4))
	}
	var sql, kind string
	write := true
	switch tp.Choose(5) {
	case 0:
		d.nextID++
		row := d.newRow(tp, sqlmini.Int(d.nextID))
		row[0], row[4] = sqlmini.Int(d.nextID), sqlmini.Str("2014-05-02")
		kind, sql = "insert", insertSQL(name, [][]sqlmini.Value{row}, false)
	case 1:
		kind, sql = "update", fmt.Sprintf("update %s set v = %d where g = %d", name, tp.Choose(90), tp.Choose(4))
		if tp.Chance(1, 2) {
			sql = fmt.Sprintf("update %s set v = %d where %s", name, tp.Choose(90), inCond(g+"."))
		}
	case 2:
		kind, sql = "delete", fmt.Sprintf("delete from %s where v = %d", name, tp.Choose(30)-5)
		if tp.Chance(1, 2) {
			sql = fmt.Sprintf("delete from %s where %s and v < 3", name, inCond(g+"."))
		}
	case 3:
		kind, sql, write = "select", fmt.Sprintf("select id, v from %s as ga where ga.g = %d", name, tp.Choose(4)), false
		if tp.Chance(1, 2) {
			sql = fmt.Sprintf("select id, v from %s as ga where %s", name, inCond("ga."))
		}
	default:
		kind, sql, write = "select", fmt.Sprintf("select count(*) from %s", name), false
	}
	if tp.Chance(1, 4) {
		// columns qualified with database and table outside plain comparisons: select list, ORDER BY, IS NULL, a function argument, SET
		q := d.gdb + "." + g
		switch tp.Choose(4) {
		case 0:
			kind, sql, write = "select", fmt.Sprintf("select %s.id, %s.v from %s where %s.name is not null order by %s.id", q, q, q, q, q), false
		case 1:
			kind, sql, write = "select", fmt.Sprintf("select %s.id from %s where abs(%s.v) = %d", q, q, q, tp.Choose(20)), false
		case 2:
			kind, sql, write = "update", fmt.Sprintf("update %s set %s.v = %d where %s.name is null", q, q, tp.Choose(90), q), true
		default:
			kind, sql, write = "delete", fmt.Sprintf("delete from %s where abs(%s.v) = %d", q, q, tp.Choose(30)), true
		}
		name = q
		stats["global-fully-qualified-columns"]++
	}
	copies := d.globalCopies()
	d.brokenRewrite = ""
	o := d.run(sql)
	if d.brokenRewrite != "" {
		d.fail("C04-statement-for-a-copy-names-the-logical-database", "%s on the global table %q: %s", kind, sql, d.brokenRewrite)
		return
	}
	d.r.Sched("op", fmt.Sprintf("global-%s/%v", kind, o.err == nil))
	d.r.Logf("%q -> %s; backends: %q", sql, errText(o.err), o.recvSQL)
	stats["global-"+kind]++
	if o.err != nil {
		if !o.refused {
			d.fail("harness", "transport error: %v", o.err)
		}
		return
	}
	var got []string
	total := 0
	for k, n := range o.received {
		total += n
		for i := 0; i < n; i++ {
			got = append(got, k)
		}
	}
	sort.Strings(got)
	if write {
		if !sameStrings(got, copies) {
			d.fail("C04-write-not-on-every-copy-once", "%s on the global table %q: the copies are %v, the statement was executed on %v (%q)", kind, sql, copies, got, o.recvSQL)
			return
		}
		if _, err := d.ref.Exec(strings.Replace(sql, name, g, 1), d.gdb); err != nil {
			d.fail("harness", "reference: %v", err)
			return
		}
		// all copies hold the same rows as the reference
		want := multiset(d.ref.Get(d.gdb, g).Rows)
		for _, cp := range copies {
			addr, dbt, _ := strings.Cut(cp, "|")
			db, tbl, _ := strings.Cut(dbt, ".")
			t := d.store(addr).Get(db, tbl)
			var have []string
			if t != nil {
				have = multiset(t.Rows)
			}
			if !sameStrings(have, want) {
				d.fail("C04-copies-diverge", "after %q copy %s holds %v, expected %v", sql, cp, clip(have), clip(want))
				return
			}
		}
	} else {
		isCopy := false
		for _, cp := range copies {
			if len(got) == 1 && got[0] == cp {
				isCopy = true
			}
		}
		if total != 1 || !isCopy {
			d.fail("C04-read-not-on-exactly-one-copy", "select on the global table %q was executed %d times on %v; the copies are %v", sql, total, got, copies)
			return
		}
	}
	stats["checked"]++
	stats["global-checked"]++
}

// ---------- fast path (C06) ----------

func (d *dataWorld) opFastPath(tp *simkit.Tape, stats map[string]int) {
	rule := d.rule
	t := rule.table
	onChild := d.child != "" && tp.Chance(1, 3)
	if onChild {
		t = d.child // a linked table is a sharded table too
		stats["fast-path-probe-on-linked-child"]++
	}
	name := t
	switch tp.Choose(8) {
	case 0:
		name = strings.ToUpper(t)
	case 1:
		name = "`" + t + "`"
	case 2:
		name = rule.db + "." + t
	case 3:
		name = "`" + rule.db + "`.`" + t + "`"
	case 4:
		name = "/* c */" + t
	case 5:
		name = "\n" + t + "\n"
	case 6:
		name = t + "/* c */"
	}
	if d.sessDB != rule.db {
		name = []string{rule.db + "." + t, "`" + rule.db + "`.`" + t + "`", rule.db + "." + strings.ToUpper(t)}[tp.Choose(3)]
	}
	plain := "t_plain"
	if d.sessDB != rule.db {
		plain = rule.db + ".t_plain"
	}
	var sql string
	routeCond := "" // for the plain forms: the condition whose matching sub-tables must all be reached
	form := tp.Choose(9)
	if d.sessDB != rule.db && tp.Chance(1, 2) {
		form = []int{0, 8}[tp.Choose(2)] // the plain forms, whose routing can be checked
	}
	switch form {
	case 0, 1:
		routeCond = "v > -100"
		sql = fmt.Sprintf("select id, name from %s where v > -100", name)
		if tp.Chance(1, 6) {
			// a long statement: the sharded table is named far behind the beginning of the text
			pad := strings.Repeat("p", []int{5000, 17000, 40000}[tp.Choose(3)])
			sql = fmt.Sprintf("select id, name, '%s' as pad from %s where v > -100", pad, name)
			if tp.Chance(1, 2) {
				var ids []string
				for i := 0; i < 4000; i++ {
					ids = append(ids, strconv.Itoa(700000+i))
				}
				sql = fmt.Sprintf("select id, name from %s where id not in (%s) and id in (select id from %s)", plain, strings.Join(ids, ","), name)
				routeCond = ""
			}
			stats["fast-path-probe-long-statement"]++
		}
	case 2:
		sql = fmt.Sprintf("select a.id from %s a, %s b where a.id = b.id", plain, name)
	case 3:
		sql = fmt.Sprintf("select a.id from %s a join %s b on a.id = b.id", plain, name)
	case 4:
		sql = fmt.Sprintf("select id from %s where id in (select id from %s)", plain, name)
	case 5:
		sql = fmt.Sprintf("select id from (select id from %s where v > -100) x", name)
	case 6:
		sql = fmt.Sprintf("delete from %s where id = 666001", name)
	case 7:
		sql = fmt.Sprintf("update %s set v = 7 where id = 666001", name)
	default:
		routeCond = "1 = 1"
		sql = fmt.Sprintf("select count(*) from %s", name)
	}
	if tp.Chance(1, 4) {
		sql = strings.Replace(sql, "select ", "SELECT\t", 1)
	}
	if onChild {
		routeCond = "" // (the routing oracle below knows the parent's placement only)
	}
	var hold []string
	if routeCond != "" {
		var herr error
		if hold, herr = d.holders(routeCond); herr != nil {
			d.fail("harness", "evaluating %q: %v", routeCond, herr)
			return
		}
	}
	o := d.run(sql)
	d.r.Sched("op", fmt.Sprintf("fastpath/%v", o.err == nil))
	d.r.Logf("%q -> %s; backends: %q", sql, errText(o.err), o.recvSQL)
	stats["fast-path-probe"]++
	if o.err != nil && !o.refused {
		d.fail("harness", "transport error: %v", o.err)
		return
	}
	if o.res != nil {
		for _, row := range o.res.Rows {
			for _, c := range row {
				if string(c) == "666001" || string(c) == "poison" {
					d.fail("C06-decoy-row-returned", "%q returned a row of the decoy table that carries the logical name on the default slice: %s", sql, textRow(row))
					return
				}
			}
		}
	}
	// a statement on the sharded table that was accepted must have been sharded: every sub-table with matching rows got it
	if o.err == nil && routeCond != "" {
		for _, h := range hold {
			if o.received[h] == 0 {
				d.fail("C06-sharded-table-statement-not-sharded", "%q (session database %s) names the sharded table %s.%s; sub-table %s holds matching rows but did not receive it; the backends received %q", sql, d.sessDB, rule.db, t, h, o.recvSQL)
				return
			}
		}
	}
	// a delete / update that slipped through would have changed the decoy
	if !rule.mycat {
		dec := d.store(stripAddr(d.w.NS["ns1"].Slices[0].Master)).Get(d.physDB(rule.db), t)
		if dec == nil || len(dec.Rows) != 1 || dec.Rows[0][2].String() != "1" {
			d.fail("C06-decoy-table-modified", "%q changed the table that carries the logical name on the default slice", sql)
			return
		}
	}
	// statements that went through sharded analysis changed real rows: keep the reference in step
	if o.err == nil && (strings.HasPrefix(sql, "delete") || strings.HasPrefix(sql, "update")) {
		d.ref.Exec(fmt.Sprintf("%s", strings.Replace(sql, name, t, 1)), rule.db)
	}
	stats["checked"]++
}
