package w1proxy

import (
	"fmt"
	"sort"
	"strings"

	"github.com/XiaoMi/Gaea/models"

	"verif/harness/mycli"
	"verif/harness/simkit"
)

// C29: credentials authenticate into exactly their own namespace, across reloads.

func init() {
	worlds["C29"] = &simkit.World{Property: "C29", Run: runC29, Classify: classifyC29, TraceCap: 2500, MinBudget: 250}
}

var c29names = []string{"app", "svc:1", "ro.user", "app:", "x"}
var c29pws = []string{"pw", "pw:2", "pw:3", ":pw", "p@ss,1", "pw:", "a:b:c", "secret"}

type c29cred struct{ user, pw string }

// c29config is the reference: namespace -> credentials, as committed.
type c29config map[string][]c29cred

func (c c29config) clone() c29config {
	o := c29config{}
	for k, v := range c {
		o[k] = append([]c29cred{}, v...)
	}
	return o
}

// owner returns the namespace a pair authenticates into ("" = refused).
func (c c29config) owner(user, pw string) string {
	for ns, cs := range c {
		for _, x := range cs {
			if x.user == user && x.pw == pw {
				return ns
			}
		}
	}
	return ""
}

func (c c29config) String() string {
	var ns []string
	for n := range c {
		ns = append(ns, n)
	}
	sort.Strings(ns)
	var b strings.Builder
	for _, n := range ns {
		fmt.Fprintf(&b, "%s%q ", n, c[n])
	}
	return b.String()
}

// c29draw picks users for one namespace such that no (name, password) pair is held by another namespace.
func c29draw(tp *simkit.Tape, cur c29config, ns string) []c29cred {
	taken := map[c29cred]bool{}
	for n, cs := range cur {
		if n == ns {
			continue
		}
		for _, x := range cs {
			taken[x] = true
		}
	}
	var out []c29cred
	n := tp.Range(1, 3)
	for _, ui := range tp.Perm(len(c29names))[:n] {
		u := c29names[ui]
		for _, pi := range tp.Perm(len(c29pws)) {
			c := c29cred{u, c29pws[pi]}
			if !taken[c] {
				out = append(out, c)
				break
			}
		}
	}
	return out
}

func c29ns(name string, creds []c29cred) *models.Namespace {
	ns := baseNamespace(name, 1, 0)
	ns.Users = nil
	for _, c := range creds {
		ns.Users = append(ns.Users, &models.User{UserName: c.user, Password: c.pw, Namespace: name, RWFlag: 2, RWSplit: 0})
	}
	return ns
}

func runC29(r *simkit.Run) {
	tp := r.Tape
	all := []string{"nsa", "nsb", "nsc"}
	cfg0 := c29config{}
	nInit := tp.Range(1, 3)
	for _, n := range all[:nInit] {
		cfg0[n] = c29draw(tp, cfg0, n)
	}
	// admin script, drawn up front against the evolving reference
	type adminOp struct {
		kind  string
		ns    string
		creds []c29cred
		after c29config
	}
	var script []adminOp
	cur := cfg0.clone()
	nAdmin := tp.Range(1, 6)
	for i := 0; i < nAdmin; i++ {
		n := all[tp.Choose(len(all))]
		if _, ok := cur[n]; ok && tp.Chance(1, 3) {
			delete(cur, n)
			script = append(script, adminOp{kind: "delete", ns: n, after: cur.clone()})
			continue
		}
		creds := c29draw(tp, cur, n)
		if tp.Chance(1, 5) {
			// a prepare whose commit never arrives (the control plane commits only when every proxy prepared): no effect
			script = append(script, adminOp{kind: "abandoned-prepare", ns: n, creds: creds, after: cur.clone()})
			continue
		}
		kind := "reload"
		if _, ok := cur[n]; !ok {
			kind = "create"
		}
		cur[n] = creds
		script = append(script, adminOp{kind: kind, ns: n, creds: creds, after: cur.clone()})
	}
	// every pair that ever exists, plus mismatched ones
	pairSet := map[c29cred]bool{}
	addAll := func(c c29config) {
		for _, cs := range c {
			for _, x := range cs {
				pairSet[x] = true
			}
		}
	}
	addAll(cfg0)
	for _, op := range script {
		addAll(op.after)
	}
	var pairs []c29cred
	for p := range pairSet {
		pairs = append(pairs, p)
	}
	sort.Slice(pairs, func(i, j int) bool { return pairs[i].user+"\x00"+pairs[i].pw < pairs[j].user+"\x00"+pairs[j].pw })
	nClients := tp.Range(1, 3)
	attempts := tp.Range(3, 8)
	type attempt struct{ user, pw string }
	plans := make([][]attempt, nClients)
	for i := range plans {
		for j := 0; j < attempts; j++ {
			p := pairs[tp.Choose(len(pairs))]
			a := attempt{p.user, p.pw}
			switch tp.Choose(8) {
			case 0:
				a.pw = pairs[tp.Choose(len(pairs))].pw // somebody else's password
			case 1:
				// what a key split at ':' would make of the pair
				if i := strings.Index(a.pw, ":"); i >= 0 {
					a.pw = a.pw[:i]
				}
			case 2:
				if i := strings.Index(a.user, ":"); i >= 0 {
					a.user = a.user[:i]
				}
			}
			plans[i] = append(plans[i], a)
		}
	}
	nss := map[string]*models.Namespace{}
	for n, cs := range cfg0 {
		nss[n] = c29ns(n, cs)
	}
	w, err := NewWorld(r, nss, WorldOpts{})
	if err != nil {
		r.Failf("harness", "NewWorld: %v", err)
		return
	}
	w.Cl.Logf = r.Logf
	r.SetSiteDensity(0, 0)
	for _, n := range all {
		w.AddBackendsOf(c29ns(n, nil))
	}
	// history of committed configurations; version = index
	versions := []c29config{cfg0}
	cfgText := fmt.Sprintf("namespaces=%d adminOps=%d clients=%d attempts=%d", nInit, nAdmin, nClients, attempts)
	r.Logf("config %s; initial %s", cfgText, cfg0)
	finished := 0
	adminDone := false
	r.Go("admin", func() {
		defer func() { adminDone = true }()
		for _, op := range script {
			simkit.Pause(r, "idle:admin")
			switch op.kind {
			case "abandoned-prepare":
				if err := w.Manager.ReloadNamespacePrepare(c29ns(op.ns, op.creds)); err != nil {
					r.Failf("harness", "prepare %s: %v", op.ns, err)
					return
				}
				r.Fault("prepare-abandoned")
			case "delete":
				// the switch happens inside the call: from here either configuration may answer
				versions = append(versions, op.after)
				if err := w.Manager.DeleteNamespace(op.ns); err != nil {
					r.Failf("harness", "delete %s: %v", op.ns, err)
				}
				r.Fault("namespace-deleted")
			default:
				if err := w.Manager.ReloadNamespacePrepare(c29ns(op.ns, op.creds)); err != nil {
					r.Failf("harness", "prepare %s: %v", op.ns, err)
					return
				}
				simkit.Pause(r, "idle:admin")
				versions = append(versions, op.after)
				if err := w.Manager.ReloadNamespaceCommit(op.ns); err != nil {
					r.Failf("harness", "commit %s: %v", op.ns, err)
					return
				}
				r.Fault("namespace-" + op.kind)
			}
			r.Logf("admin: %s %s -> %s", op.kind, op.ns, op.after)
			r.Sched("admin", op.kind+"/"+op.ns)
		}
	})
	logins, refusals, afterChange := 0, 0, 0
	for i := 0; i < nClients; i++ {
		i := i
		name := fmt.Sprintf("client%d", i)
		r.Go(name, func() {
			defer func() { finished++ }()
			for j, a := range plans[i] {
				simkit.Pause(r, "idle:"+name)
				v0 := len(versions) - 1
				c, err := w.Connect("", mycli.Options{User: a.user, Password: a.pw, DB: "db1"})
				v1 := len(versions) - 1
				var want []string
				for v := v0; v <= v1; v++ {
					want = append(want, versions[v].owner(a.user, a.pw))
				}
				got := ""
				if err == nil {
					// which namespace is the session bound to: ask its backend
					res, qerr := c.Query(fmt.Sprintf("select %d", markerOf(i, j)))
					v2 := len(versions) - 1
					if qerr != nil || len(res) != 1 || len(res[0].Rows) != 1 {
						if v2 == v0 {
							r.Failf("C29-session-unusable", "%s logged in as %q/%q with configuration %s but its first query answered %v", name, a.user, a.pw, versions[v0], errText(qerr))
						}
						got = "?"
					} else {
						got = strings.SplitN(string(res[0].Rows[0][0]), "-", 2)[0]
					}
					c.Quit()
					logins++
				} else {
					if c != nil && c.Dead {
						r.Failf("harness", "%s: transport failure during handshake: %v", name, err)
					}
					refusals++
				}
				if v0 > 0 {
					afterChange++
				}
				r.Sched("op", fmt.Sprintf("%d/%v/%s", i, err == nil, got))
				r.Logf("%s login %q/%q -> %s namespace=%q (configuration versions %d..%d expect %q)", name, a.user, a.pw, errText(err), got, v0, v1, want)
				ok := false
				for _, x := range want {
					if got == x || (got == "?" && x != "") {
						ok = true
					}
				}
				if !ok {
					switch {
					case got == "" && err != nil:
						r.Failf("C29-configured-credentials-refused", "%s: %q/%q is configured in namespace %q (configuration %s) but the login was refused: %v", name, a.user, a.pw, want[0], versions[v0], err)
					case want[len(want)-1] == "":
						r.Failf("C29-unconfigured-credentials-accepted", "%s: %q/%q is configured in no namespace (configuration %s) but the login succeeded, bound to %q", name, a.user, a.pw, versions[v1], got)
					default:
						r.Failf("C29-bound-to-wrong-namespace", "%s: %q/%q belongs to namespace %q but the session is bound to %q", name, a.user, a.pw, want[0], got)
					}
				}
			}
		})
	}
	driveBusy(r, tp, 5000, nil, func() bool { return finished < nClients || !adminDone })
	r.Nontrivial = logins > 0 && afterChange > 0
	if refusals > 0 {
		r.Probe("login-refused")
	}
	if logins > 0 {
		r.Probe("login-accepted")
	}
	r.State(simkit.Hash(cfgText))
	r.Sample = map[string]interface{}{"config": cfgText, "logins": logins, "refusals": refusals, "trace_head": head(r.Trace(), 30)}
	w.Shutdown()
}

func classifyC29(r *simkit.Run) {}
