package w1proxy

import (
	"fmt"
	"strings"

	"github.com/XiaoMi/Gaea/models"

	"verif/harness/mycli"
	"verif/harness/mysim"
	"verif/harness/simkit"
)

// C22: read/write splitting sends only plain reads to replicas.

func init() {
	worlds["C22"] = &simkit.World{Property: "C22", Run: runC22, Classify: classifyC22, TraceCap: 2000, MinBudget: 250}
}

type c22world struct{ finding string }

// recase rewrites the keywords of a statement in a tape-chosen letter case.
func recase(tp *simkit.Tape, sql string, mode int) string {
	kws := []string{"select", "from", "where", "for", "update", "share", "lock", "in", "mode", "nowait", "skip", "locked", "insert", "into", "values", "delete", "replace", "set", "show", "variables", "like", "global"}
	out := []string{}
	for _, w := range strings.Split(sql, " ") {
		lw := strings.ToLower(w)
		isKw := false
		for _, k := range kws {
			if lw == k {
				isKw = true
			}
		}
		if isKw {
			switch mode {
			case 1:
				w = strings.ToUpper(w)
			case 2:
				w = strings.ToUpper(w[:1]) + lw[1:]
			default:
				w = lw
			}
		}
		out = append(out, w)
	}
	return strings.Join(out, " ")
}

func hintForm(tp *simkit.Tape) string {
	return []string{"/*master*/", "/*master*/", "/*MASTER*/", "/*Master*/"}[tp.Choose(4)]
}

type c22stmt struct {
	second     *c22stmt // multi-statement packet: a second statement after a semicolon
	sql        string
	marker     int
	mustMaster bool
	class      string
	deco       string
}

func genC22(tp *simkit.Tape, client, idx int) c22stmt {
	m := markerOf(client, idx)
	k := fmt.Sprint(m)
	var st c22stmt
	st.marker = m
	switch c := tp.Choose(22); {
	case c == 20:
		// the master hint on a SHOW statement
		st.sql = []string{hintForm(tp) + " show tables", "show " + hintForm(tp) + " tables", "show tables " + hintForm(tp), hintForm(tp) + " show variables like 'version'"}[tp.Choose(4)]
		st.class, st.mustMaster, st.marker = "master-hint-show", true, 0
	case c == 21:
		st.sql, st.class, st.mustMaster, st.marker = []string{"select @@innodb_read_only, @@read_only", "select 1, @@global.read_only"}[tp.Choose(2)], "read_only-probe", true, 0
	case c <= 4:
		st.sql, st.class = "select * from t_plain where id = "+k, "plain-read"
	case c == 5:
		st.sql, st.class, st.mustMaster = "update t_plain set a = 1 where id = "+k, "write", true
	case c == 6:
		st.sql, st.class, st.mustMaster = []string{"insert into t_plain (id, a) values (" + k + ", 1)", "replace into t_plain (id, a) values (" + k + ", 1)", "delete from t_plain where id = " + k}[tp.Choose(3)], "write", true
	case c <= 12:
		lock := []string{"for update", "for share", "lock in share mode", "for update nowait", "for update skip locked", "for share nowait", "for share skip locked"}[c-7+tp.Choose(1)]
		st.sql, st.class, st.mustMaster = "select * from t_plain where id = "+k+" "+lock, "locking-read:"+lock, true
		if tp.Chance(1, 6) {
			// a string literal with a backslash-escaped quote in front of the lock clause (what client-side
			// parameter interpolation produces)
			st.sql = "select * from t_plain where id = " + k + " and name = 'it\\'s' " + lock
			st.class = "locking-read-after-escaped-quote:" + lock
		} else if tp.Chance(1, 5) {
			// a double minus that is arithmetic, not a comment (no blank behind it), in front of the lock clause
			st.sql = "select * from t_plain where id = " + k + " and a > 5--2 " + lock
			st.class = "locking-read-after-double-minus:" + lock
		}
	case c == 13:
		st.sql, st.class, st.mustMaster = "select "+hintForm(tp)+" * from t_plain where id = "+k, "master-hint", true
	case c == 14:
		st.sql, st.class, st.mustMaster = "select * from t_plain where id = "+k+" "+hintForm(tp), "master-hint", true
		if tp.Chance(1, 4) {
			st.sql = "select * from t_plain where name = 'it\\'s' and id = " + k + " " + hintForm(tp) + " order by id"
		}
	case c == 15:
		st.sql, st.class, st.mustMaster = hintForm(tp)+" select * from t_plain where id = "+k, "master-hint", true
	case c == 16:
		st.sql, st.class, st.mustMaster, st.marker = []string{"select @@read_only", "select @@global.read_only", "select @@session.tx_read_only, @@read_only", "select @@READ_ONLY", "select @@GLOBAL.Read_Only"}[tp.Choose(5)], "read_only-probe", true, 0
	case c == 17:
		st.sql, st.class, st.mustMaster, st.marker = []string{"show variables like 'read_only'", "show global variables like '%read_only%'", "show variables like 'super_read_only'", "show variables like 'READ_ONLY'", "show variables like '%Read_Only'"}[tp.Choose(5)], "read_only-probe", true, 0
	case c == 18:
		st.sql, st.class, st.marker = "show tables", "plain-show", 0
	default:
		st.sql, st.class = "select a, b from t_plain where id = "+k+" and a > 3 order by b", "plain-read"
	}
	// decorations: letter case, white space, comments
	st.sql = recase(tp, st.sql, tp.Choose(3))
	var decos []string
	if tp.Chance(1, 3) {
		st.sql = strings.ReplaceAll(st.sql, " ", []string{"\n", "\t", "  ", " \n ", "\r\n", "\f", "\v"}[tp.Choose(7)])
		decos = append(decos, "respaced")
	}
	if !strings.HasPrefix(st.class, "master-hint") && tp.Chance(1, 4) {
		st.sql = []string{"/* app=web */ ", "/*trace:abc*/", "-- lead\n"}[tp.Choose(3)] + st.sql
		decos = append(decos, "leading-comment")
	}
	if tp.Chance(1, 4) {
		st.sql += []string{" /* traceid=42 */", " -- trace 42", "/*t*/", " # t"}[tp.Choose(4)]
		decos = append(decos, "trailing-comment")
	}
	if tp.Chance(1, 5) {
		st.sql += []string{";", " ;", "; "}[tp.Choose(3)]
		decos = append(decos, "semicolon")
	}
	st.deco = strings.Join(decos, "+")
	return st
}

func runC22(r *simkit.Run) {
	tp := r.Tape
	cw := &c22world{}
	r.World = cw
	nSlaves := tp.Range(1, 2)
	ns := baseNamespace("ns1", 1, nSlaves)
	ns.SupportMultiQuery = true
	keep := tp.Chance(1, 4)
	ns.SetForKeepSession = keep
	w, err := NewWorld(r, map[string]*models.Namespace{"ns1": ns}, WorldOpts{})
	if err != nil {
		r.Failf("harness", "NewWorld: %v", err)
		return
	}
	w.Cl.Logf = r.Logf
	r.SetSiteDensity(0, 0)
	h := &History{W: w, inFlight: map[int]*OpRec{}}
	w.Cl.OnReceive = func(c *mysim.Conn, st *mysim.Stmt) { st.Ev = h.tick() }
	nClients := tp.Range(1, 2)
	opsPer := tp.Range(5, 14)
	cfg := fmt.Sprintf("slaves=%d clients=%d ops=%d keepSession=%v", nSlaves, nClients, opsPer, keep)
	r.Logf("config %s", cfg)
	finished := 0
	replicaReads, masterForced := 0, 0
	for i := 0; i < nClients; i++ {
		user := []string{"ns1_split", "ns1_split", "ns1_rw"}[tp.Choose(3)]
		pw := map[string]string{"ns1_rw": "pw_rw", "ns1_split": "pw_split"}[user]
		cm := &ClientModel{Idx: i, User: user, DB: "db1", AC: true, Vars: map[string]string{}, UVars: map[string]string{}}
		h.Clients = append(h.Clients, cm)
		var script []c22stmt
		inTx := false
		for j := 0; j < opsPer; j++ {
			switch {
			case !inTx && tp.Chance(1, 10):
				script = append(script, c22stmt{sql: "begin", class: "begin"})
				inTx = true
			case inTx && tp.Chance(1, 3):
				script = append(script, c22stmt{sql: "commit", class: "commit"})
				inTx = false
			default:
				st := genC22(tp, i, j)
				if inTx {
					st.mustMaster = true
					st.class += "(in transaction)"
				} else if tp.Chance(1, 6) && !strings.Contains(st.deco, "semicolon") && !strings.Contains(st.sql, "--") && !strings.Contains(st.sql, "#") && st.marker != 0 {
					// a second statement in the same packet (multi-statement protocol)
					s2 := genC22(tp, i, j+50)
					if s2.marker != 0 && !strings.Contains(s2.sql, "-- lead") {
						st.second = &s2
					}
				}
				script = append(script, st)
			}
		}
		name := fmt.Sprintf("client%d", i)
		r.Go(name, func() {
			defer func() { finished++ }()
			c, err := w.Connect("", mycli.Options{User: user, Password: pw, DB: "db1", ExtraCaps: 1 << 16})
			if err != nil {
				r.Failf("harness", "%s cannot connect: %v", name, err)
				return
			}
			cm.C = c
			for j, st := range script {
				simkit.Pause(r, "idle:"+name)
				sqlText := st.sql
				if st.second != nil {
					sqlText = st.sql + "; " + st.second.sql
				}
				rec := h.run(cm, j, Op{Kind: "query", SQL: sqlText, Marker: st.marker, Class: st.class})
				r.Sched("op", st.class+"/"+st.deco)
				r.Logf("%s [%s %s] %q -> %s", name, st.class, st.deco, st.sql, errText(rec.Err))
				if rec.Err != nil || st.class == "begin" || st.class == "commit" {
					continue
				}
				// which backend executed it?
				var got []*mysim.Stmt
				if st.marker != 0 {
					got = h.stmtsOf(rec)
				} else if !rec.Overlap {
					for _, b := range h.window(rec) {
						if b.Kind == "select" || b.Kind == "show" {
							got = append(got, b)
						}
					}
				}
				if st.second != nil {
					r.Probe("multi-statement-packet")
					for _, b := range h.W.Cl.Log[rec.LogFrom:] {
						for _, m := range markersIn(b.SQL) {
							if m == st.second.marker && st.second.mustMaster && user == "ns1_split" && b.Role != "master" && !(keep && true) {
								r.Failf("C22-must-run-on-master", "read/write-split user: second statement of a multi-statement packet, %s %q, was executed on %s, a %s (first statement: %q)", st.second.class, st.second.sql, b.Backend, b.Role, st.sql)
							}
						}
					}
				}
				for _, b := range got {
					if b.Role != "master" {
						replicaReads++
					}
					if st.mustMaster && user == "ns1_split" && b.Role != "master" {
						cw.finding = c22finding(st)
						r.Failf("C22-must-run-on-master", "read/write-split user: %s statement %q (%s) was executed on %s, a %s", st.class, st.sql, st.deco, b.Backend, b.Role)
					}
					if st.mustMaster && b.Role == "master" {
						masterForced++
					}
					if user == "ns1_rw" && b.Role != "master" {
						r.Failf("C22-non-split-user-on-replica", "user without read/write splitting: %q was executed on %s, a %s", st.sql, b.Backend, b.Role)
					}
				}
			}
			simkit.Pause(r, "idle:"+name)
			c.Quit()
		})
	}
	driveBusy(r, tp, 3000, nil, func() bool { return finished < nClients })
	r.Nontrivial = replicaReads > 0 && masterForced > 0
	if replicaReads > 0 {
		r.Probe("plain-read-served-by-replica")
	}
	r.State(simkit.Hash(cfg))
	r.Sample = map[string]interface{}{"config": cfg, "replica_reads": replicaReads, "forced_to_master": masterForced, "trace_head": head(r.Trace(), 30)}
	w.Shutdown()
}

// c22finding names the known-finding predicate a failing statement falls under.
func c22finding(st c22stmt) string {
	if strings.HasPrefix(st.class, "locking-read") && (strings.Contains(st.deco, "trailing-comment") || strings.Contains(st.deco, "semicolon")) {
		return ""
	}
	return ""
}

func classifyC22(r *simkit.Run) {
	if w, ok := r.World.(*c22world); ok && r.Viol != nil {
		r.Viol.Finding = w.finding
	}
}
