package w1proxy

import (
	"fmt"

	"github.com/XiaoMi/Gaea/backend"
	"github.com/XiaoMi/Gaea/proxy/server"
	"strings"
	"time"

	"github.com/XiaoMi/Gaea/models"

	"verif/harness/mycli"
	"verif/harness/myproto"
	"verif/harness/mysim"
	"verif/harness/simkit"
)

// C23: keep-session clients stay pinned to their backend connections; a
// committed reload of the namespace drops them outside a transaction and
// disconnects a client that is inside one.

func init() {
	worlds["C23"] = &simkit.World{Property: "C23", Run: runC23, TraceCap: 2500, MinBudget: 250}
}

func runC23(r *simkit.Run) {
	tp := r.Tape
	nSlices := tp.Range(1, 2)
	nClients := tp.Range(1, 2)
	opsPer := tp.Range(5, 14)
	// a namespace without shard rules forwards statements it cannot parse (CALL) to the default slice
	unsharded := tp.Chance(1, 3)
	mkNS := shardedNamespace
	if unsharded {
		mkNS = baseNamespace
	}
	ns := mkNS("ns1", nSlices, tp.Range(0, 1))
	ns.SetForKeepSession = true
	for _, sl := range ns.Slices {
		sl.Capacity, sl.MaxCapacity = 2, 4
	}
	w, err := NewWorld(r, map[string]*models.Namespace{"ns1": ns}, WorldOpts{})
	if err != nil {
		r.Failf("harness", "NewWorld: %v", err)
		return
	}
	w.Cl.Logf = r.Logf
	r.SetSiteDensity(0, 0)
	h := &History{W: w, inFlight: map[int]*OpRec{}}
	w.Cl.OnReceive = func(c *mysim.Conn, st *mysim.Stmt) { st.Ev = h.tick() }
	// some statements take a little simulated time, so that a reload can land while a command is in flight
	slowOn := tp.Chance(1, 2)
	w.Cl.Fault = func(c *mysim.Conn, st *mysim.Stmt) *mysim.FaultAction {
		isCall := strings.HasPrefix(strings.ToLower(strings.TrimSpace(st.SQL)), "call ")
		if slowOn && !isNoise(st) && (st.Kind == "select" || st.Kind == "update" || isCall) && tp.Chance(1, 4-2*b2i(isCall)) {
			r.Fault("slow-statement-300ms")
			return &mysim.FaultAction{Delay: 300 * time.Millisecond}
		}
		return nil
	}
	w.Cl.Exec = func(c *mysim.Conn, st *mysim.Stmt) *mysim.Reply {
		if !strings.HasPrefix(strings.ToLower(strings.TrimSpace(st.SQL)), "call ") {
			return nil
		}
		col := []myproto.Column{{Name: "v", Type: myproto.TLongLong, Length: 20}}
		rep := &mysim.Reply{Columns: col, Rows: [][][]byte{{[]byte("1")}, {[]byte("2")}},
			Next: &mysim.Reply{Columns: col, Rows: [][][]byte{{[]byte("3")}}, Next: &mysim.Reply{}}}
		if slowOn && tp.Chance(1, 2) {
			r.Fault("slow-statement-300ms")
			rep.StallNext = 300 * time.Millisecond
		}
		return rep
	}
	cfg := fmt.Sprintf("slices=%d clients=%d ops=%d slowStatements=%v shardRules=%v", nSlices, nClients, opsPer, slowOn, !unsharded)
	r.Logf("config %s", cfg)
	reloads := 0    // committed reloads so far
	version := 5000 // stamped into max_sql_execute_time
	finished := 0
	type pin struct {
		conn  uint32
		addr  string
		epoch int
	}
	connOf := func(addr string, id uint32) *mysim.Conn {
		for _, c := range w.Cl.Backends[addr].Conns {
			if c.ID == id {
				return c
			}
		}
		return nil
	}
	var allPins []map[string]*pin
	for i := 0; i < nClients; i++ {
		user := []string{"ns1_rw", "ns1_split"}[tp.Choose(2)]
		pw := map[string]string{"ns1_rw": "pw_rw", "ns1_split": "pw_split"}[user]
		cm := &ClientModel{Idx: i, User: user, DB: "db1", AC: true, Vars: map[string]string{}, UVars: map[string]string{}}
		h.Clients = append(h.Clients, cm)
		for j := 0; j < opsPer; j++ {
			op := genTxnOp(tp, i, j, nSlices)
			if unsharded && tp.Chance(1, 4) {
				// a stored procedure with several selects: the reply is a chain of results that the proxy
				// streams to the client from the pinned connection while it is still reading it
				m := markerOf(i, j)
				op = Op{Kind: "query", SQL: fmt.Sprintf("call p_multi(%d)", m), Marker: m, Class: "write", Table: "t_plain", Arg: "call"}
			}
			if unsharded && op.Kind == "use" {
				op.Arg = "db1" // (in db2, whose physical name differs, the proxy parses every statement and refuses CALL)
			}
			cm.Script = append(cm.Script, op)
		}
		pins := map[string]*pin{} // slice -> pinned backend connection
		allPins = append(allPins, pins)
		name := fmt.Sprintf("client%d", i)
		r.Go(name, func() {
			defer func() { finished++ }()
			c, err := w.Connect("", mycli.Options{User: user, Password: pw, DB: "db1"})
			if err != nil {
				r.Failf("harness", "%s cannot connect: %v", name, err)
				return
			}
			cm.C = c
			seenEpoch := 0
			type pinAt struct {
				sl string
				p  *pin
			}
			var oldPins []pinAt
			outsideAtReload := false
			for j, op := range cm.Script {
				if cm.Dead {
					break
				}
				simkit.Pause(r, "idle:"+name)
				// (checked here, after the scheduler has let everything settle)
				for _, op := range oldPins {
					if bc := connOf(op.p.addr, op.p.conn); bc != nil && !bc.Closed {
						r.Failf("C23-old-connection-kept-after-reload", "%s: the namespace was reloaded while the client was outside a transaction, but its pinned connection %s#%d of %s is still open after its next command", name, op.p.addr, op.p.conn, op.sl)
					}
				}
				oldPins = nil
				if outsideAtReload {
					outsideAtReload = false
					if cm.Dead || c.NC.(interface{ PeerGone() bool }).PeerGone() {
						r.Failf("C23-client-outside-transaction-disconnected-after-reload", "%s was outside a transaction when its namespace was reloaded; its next command succeeded but the proxy then closed the connection", name)
					}
				}
				epochAtInvoke := reloads
				wasTx := cm.TxOpen
				rec := h.run(cm, j, op)
				r.Sched("op", fmt.Sprintf("%d/%s", i, op.Class))
				r.Logf("%s [%s%s] %q -> %s", name, op.Class, txTag(rec), op.SQL, errText(rec.Err))
				if op.Arg == "call" && rec.Err == nil {
					r.Probe("multi-result-reply-streamed-from-the-pinned-connection")
					if len(rec.Res) != 3 || len(rec.Res[0].Rows) != 2 || len(rec.Res[1].Rows) != 1 {
						r.Failf("C23-reply-of-pinned-connection-damaged", "%s: %q answers with two result sets (2 rows, 1 row) and an OK on the backend; the client received %d results without an error", name, op.SQL, len(rec.Res))
					}
				}
				if reloads > epochAtInvoke && !wasTx && cm.AC {
					// the namespace was reloaded while this command was being served, outside a transaction
					r.Probe("reload-while-a-command-outside-a-transaction-is-in-flight")
					if rec.Err != nil && op.Class != "begin" && op.Class != "set-ac0" {
						r.Failf("C23-client-outside-transaction-got-error-after-reload", "%s was outside a transaction when its namespace was reloaded in the middle of its command %q, and the command failed: %v", name, op.SQL, rec.Err)
					}
				}
				if epochAtInvoke > seenEpoch {
					// first command after a committed reload of the namespace
					if wasTx {
						if rec.Err == nil {
							r.Failf("C23-in-transaction-client-not-disconnected", "%s was inside a transaction when its namespace was reloaded; its next command %q succeeded instead of failing with the namespace-changed error", name, op.SQL)
						}
						r.Probe("reload-inside-transaction")
						// the session must be gone now
						simkit.Pause(r, "idle:"+name)
						if err := c.Ping(); err == nil {
							r.Failf("C23-in-transaction-client-not-disconnected", "%s was inside a transaction when its namespace was reloaded; it got an error but the connection is still served", name)
						}
						cm.Dead = true
						break
					}
					r.Probe("reload-outside-transaction")
					for sl, p := range pins {
						oldPins = append(oldPins, pinAt{sl, p})
						delete(pins, sl)
					}
					seenEpoch = epochAtInvoke
					if rec.Err != nil {
						r.Failf("C23-client-outside-transaction-got-error-after-reload", "%s was outside a transaction when its namespace was reloaded, but its next command %q failed: %v", name, op.SQL, rec.Err)
					}
					outsideAtReload = true
				}
				if rec.Err != nil || op.Marker == 0 {
					continue
				}
				for _, st := range h.stmtsOf(rec) {
					p := pins[st.Slice]
					if p == nil {
						pins[st.Slice] = &pin{conn: st.ConnID, addr: st.Backend, epoch: seenEpoch}
						continue
					}
					if p.conn != st.ConnID || p.addr != st.Backend {
						r.Failf("C23-pinned-connection-changed", "%s statement %q ran on %s#%d, but the session had been using %s#%d for %s since its first statement there", name, op.SQL, st.Backend, st.ConnID, p.addr, p.conn, st.Slice)
					}
				}
			}
			simkit.Pause(r, "idle:"+name)
			if !cm.Dead {
				h.run(cm, len(cm.Script), Op{Kind: "quit", Class: "quit"})
			}
		})
	}
	driveBusy(r, tp, 4000, func() {
		// a committed reload of the namespace between two client commands
		if (len(h.inFlight) == 0 || tp.Chance(1, 2)) && reloads < 2 && tp.Chance(1, 12) {
			if len(h.inFlight) > 0 {
				r.Probe("reload-while-a-command-is-in-flight")
			}
			version++
			c := mkNS("ns1", nSlices, len(ns.Slices[0].Slaves))
			c.SetForKeepSession = true
			c.MaxSqlExecuteTime = version
			for _, sl := range c.Slices {
				sl.Capacity, sl.MaxCapacity = 2, 4
			}
			if err := w.Manager.ReloadNamespacePrepare(c); err != nil {
				r.Failf("harness", "prepare: %v", err)
				return
			}
			if err := w.Manager.ReloadNamespaceCommit("ns1"); err != nil {
				r.Failf("harness", "commit: %v", err)
				return
			}
			reloads++
			r.Steps++
			r.Sched("reload", fmt.Sprint(reloads))
			r.Logf("%d namespace ns1 reloaded (generation %d)", r.Steps, reloads)
			r.Fault("namespace-reload-committed")
			if tp.Chance(1, 2) {
				// the clients stay quiet for more than the 60 s after which the replaced namespace closes its pools:
				// connections they still hold from it come back while that close is waiting for them
				r.Advance(61 * time.Second)
				r.Probe("old-generation-closing-while-connections-are-out")
			}
		}
	}, func() bool { return finished < nClients })
	if !r.Failed() && finished == nClients {
		r.Advance(2 * time.Second)
		// every connection a client was pinned to must have been closed at disconnect
		for i, pins := range allPins {
			for sl, p := range pins {
				if bc := connOf(p.addr, p.conn); bc != nil && !bc.Closed {
					r.Failf("C23-connection-not-closed-at-disconnect", "client%d has disconnected but its pinned connection %s#%d of %s is still open", i, p.addr, p.conn, sl)
				}
			}
		}
		if inUse, detail := w.PoolStats(); inUse != 0 && !r.Failed() {
			r.Failf("C23-connection-not-released-at-disconnect", "all clients have disconnected but %d backend connections are still checked out: %v", inUse, detail)
		}
		// the same for the pools of replaced generations of the namespace
		for _, n := range server.VerifAllNamespaces(w.Manager) {
			for sn, sl := range server.VerifSlices(n) {
				for _, dbi := range []*backend.DBInfo{sl.Master, sl.Slave, sl.StatisticSlave} {
					if dbi == nil {
						continue
					}
					for _, node := range dbi.Nodes {
						if u := node.ConnPool.InUse(); u != 0 && !r.Failed() {
							r.Failf("C23-connection-not-released-at-disconnect", "all clients have disconnected but pool %s %s (of a current or replaced generation of the namespace) still counts %d connections as checked out", sn, node.Address, u)
						}
					}
				}
			}
		}
	}
	r.Nontrivial = len(h.Ops) > 4
	r.State(simkit.Hash(cfg + fmt.Sprint(reloads)))
	r.Sample = map[string]interface{}{"config": cfg, "reloads": reloads, "ops": len(h.Ops), "trace_head": head(r.Trace(), 30)}
	w.Shutdown()
}

var _ = strings.Contains

func b2i(b bool) int {
	if b {
		return 1
	}
	return 0
}
