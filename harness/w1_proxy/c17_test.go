package w1proxy

import (
	"fmt"
	"strconv"
	"strings"

	"github.com/XiaoMi/Gaea/models"

	"verif/harness/mycli"
	"verif/harness/myproto"
	"verif/harness/mysim"
	"verif/harness/simkit"
)

// C17: multi-statement text is split exactly at statement boundaries.

func init() {
	worlds["C17"] = &simkit.World{Property: "C17", Run: runC17, Classify: classifyC17, TraceCap: 2000, MinBudget: 250}
}

type c17piece struct {
	text   string // as placed between separators
	stmt   string // the statement the grammar sees ("" for a blank or comment-only piece)
	marker string
	fails  string // "" | backend | syntax
	deco   string
}

// c17stmt builds one statement that carries semicolons where the grammar does not end a statement.
func c17stmt(tp *simkit.Tape, m string) (string, string) {
	switch tp.Choose(16) {
	case 14, 15:
		// short texts: the whole query shares the smallest packet-buffer bucket with the result packets
		return "select " + m, "short"
	case 0:
		return "select * from t_plain where c = 'a;b' and id = " + m, "semicolon-in-single-quotes"
	case 1:
		return "select * from t_plain where c = \"a;b\" and id = " + m, "semicolon-in-double-quotes"
	case 2:
		return "select id as `a;b` from t_plain where id = " + m, "semicolon-in-backticks"
	case 3:
		return "select * /* a;b */ from t_plain where id = " + m, "semicolon-in-block-comment"
	case 4:
		return "select * from t_plain -- a;b\n where id = " + m, "semicolon-in-dashdash-comment"
	case 5:
		return "select * from t_plain # a;b\n where id = " + m, "semicolon-in-hash-comment"
	case 6:
		return "select * from t_plain where c = 'it''s;x' and id = " + m, "doubled-quote-then-semicolon"
	case 7:
		return "select * from t_plain where c = 'it\\'s;x' and id = " + m, "escaped-quote-then-semicolon"
	case 8:
		return "select * from t_plain where c = 'x\\\\' and d = ';' and id = " + m, "escaped-backslash-closes-string"
	case 9:
		return "update t_plain set c = ';;' where id = " + m, "only-semicolons-in-string"
	case 10:
		return "insert into t_plain (id, c) values (" + m + ", 'a\"b;c\"d')", "mixed-quotes"
	case 11:
		return "/* lead;ing */ select * from t_plain where id = " + m, "leading-comment-with-semicolon"
	default:
		return "select * from t_plain where id = " + m, "plain"
	}
}

func runC17(r *simkit.Run) {
	tp := r.Tape
	nClients := tp.Range(1, 3)
	opsPer := tp.Range(2, 6)
	ns := baseNamespace("ns1", 1, 0)
	ns.SupportMultiQuery = true
	w, err := NewWorld(r, map[string]*models.Namespace{"ns1": ns}, WorldOpts{})
	if err != nil {
		r.Failf("harness", "NewWorld: %v", err)
		return
	}
	w.Cl.Logf = r.Logf
	r.SetSiteDensity(0, 0)
	w.Cl.Fault = func(c *mysim.Conn, st *mysim.Stmt) *mysim.FaultAction {
		if t := strings.TrimSpace(st.SQL); strings.HasPrefix(t, ";") || strings.HasPrefix(t, "selec ") || strings.HasPrefix(t, "\xef\xbb\xbf") {
			return &mysim.FaultAction{Err: &myproto.ServerError{Code: 1064, State: "42000", Msg: "You have an error in your SQL syntax"}}
		}
		if strings.Contains(st.SQL, "t_missing") {
			return &mysim.FaultAction{Err: &myproto.ServerError{Code: 1146, State: "42S02", Msg: "Table 'db1.t_missing' doesn't exist"}}
		}
		return nil
	}
	cfg := fmt.Sprintf("clients=%d queries=%d", nClients, opsPer)
	r.Logf("config %s", cfg)
	finished := 0
	interesting := 0
	for i := 0; i < nClients; i++ {
		i := i
		type query struct {
			text   string
			pieces []c17piece
		}
		_ = failsBackend
		var script []query
		for j := 0; j < opsPer; j++ {
			n := tp.Range(2, 5)
			var q query
			failAt := -1
			if tp.Chance(1, 3) {
				failAt = tp.Choose(n)
			}
			var b strings.Builder
			for x := 0; x < n; x++ {
				m := strconv.Itoa(9000000 + i*100000 + j*100 + x)
				var p c17piece
				switch c := tp.Choose(10); {
				case x == failAt:
					if tp.Chance(1, 2) {
						p = c17piece{stmt: "select * from t_missing where c = ';' and id = " + m, fails: "backend", deco: "backend-error"}
					} else {
						p = c17piece{stmt: "selec * from t_plain where c = ';' and id = " + m, fails: "syntax", deco: "syntax-error"}
					}
					p.text = p.stmt
				case x == 0 && failAt < 0 && tp.Chance(1, 10):
					// a text that begins with a UTF-8 byte order mark (an editor's export): MySQL refuses the first
					// statement; wherever the proxy cuts, it must cut the text it was given
					st, _ := c17stmt(tp, m)
					p = c17piece{stmt: "\xef\xbb\xbf" + st, fails: "syntax", deco: "byte-order-mark"}
					p.text = p.stmt
				case c == 0:
					p = c17piece{text: []string{"", " ", "\n", "\t "}[tp.Choose(4)], deco: "blank"}
				case c == 1:
					p = c17piece{text: []string{" /* only a comment */ ", " /* a;b */ ", "\n-- tail;\n", " # x\n"}[tp.Choose(4)], deco: "comment-only"}
				default:
					p.stmt, p.deco = c17stmt(tp, m)
					p.text = []string{"", " ", "\n"}[tp.Choose(3)] + p.stmt + []string{"", " ", "\n"}[tp.Choose(3)]
				}
				p.marker = m
				q.pieces = append(q.pieces, p)
				b.WriteString(p.text)
				if x < n-1 || tp.Chance(1, 2) {
					b.WriteString(";")
				}
			}
			q.text = b.String()
			script = append(script, q)
		}
		name := fmt.Sprintf("client%d", i)
		r.Go(name, func() {
			defer func() { finished++ }()
			c, err := w.Connect("", mycli.Options{User: "ns1_rw", Password: "pw_rw", DB: "db1", ExtraCaps: myproto.CMultiStatements})
			if err != nil {
				r.Failf("harness", "%s cannot connect: %v", name, err)
				return
			}
			for _, q := range script {
				if c.Dead {
					break
				}
				simkit.Pause(r, "idle:"+name)
				from := len(w.Cl.Log)
				res, err := c.Query(q.text)
				var want []string
				var wantAlt []string // a piece with a syntax error may be refused by the proxy or by the backend
				wantErr := false
				decos := []string{}
				for _, p := range q.pieces {
					if p.stmt == "" {
						decos = append(decos, p.deco)
						continue
					}
					decos = append(decos, p.deco)
					if p.fails == "syntax" {
						wantErr = true
						wantAlt = append(append([]string{}, want...), strings.TrimSpace(p.stmt))
						break
					}
					want = append(want, strings.TrimSpace(p.stmt))
					if p.fails == "backend" {
						wantErr = true
						break
					}
				}
				var got []string
				for _, st := range w.Cl.Log[from:] {
					if st.Cmd != "query" || isNoise(st) {
						continue
					}
					mine := false
					for _, p := range q.pieces {
						if strings.Contains(st.SQL, p.marker) {
							mine = true
						}
					}
					if mine {
						got = append(got, strings.TrimSpace(st.SQL))
					}
				}
				r.Sched("op", fmt.Sprintf("%d/%s", i, strings.Join(decos, ",")))
				r.Logf("%s %q -> %d results, %s", name, q.text, len(res), errText(err))
				if len(want) >= 2 {
					interesting++
				}
				for _, d := range decos {
					r.Probe(d)
				}
				if c.Dead {
					r.Failf("C17-connection-lost", "%s sent %q and lost its connection: %v", name, q.text, err)
				}
				if fmt.Sprint(got) != fmt.Sprint(want) && (wantAlt == nil || fmt.Sprint(got) != fmt.Sprint(wantAlt)) {
					r.Failf("C17-statements-differ", "%s sent %q; the grammar sees %d statement(s) to execute %q, the backend received %d: %q", name, q.text, len(want), want, len(got), got)
				}
				// a text without any statement is an "empty query": MySQL itself answers with an error, either answer is fine
				if wantErr != (err != nil) && !(len(want) == 0 && !wantErr) {
					r.Failf("C17-outcome-differs", "%s sent %q; expected error=%v, got %v", name, q.text, wantErr, errText(err))
				}
				nOK := len(want)
				if wantErr && len(want) > 0 && failsBackend(q.pieces) {
					nOK--
				}
				if len(res) != nOK && !(len(want) == 0 && !wantErr) {
					r.Failf("C17-outcome-differs", "%s sent %q; %d statement(s) succeed but the client received %d result(s)", name, q.text, nOK, len(res))
				}
			}
			simkit.Pause(r, "idle:"+name)
			c.Quit()
		})
	}
	driveBusy(r, tp, 4000, nil, func() bool { return finished < nClients })
	r.Nontrivial = interesting > 0
	r.State(simkit.Hash(cfg))
	r.Sample = map[string]interface{}{"config": cfg, "multi_statement_queries": interesting, "trace_head": head(r.Trace(), 30)}
	w.Shutdown()
}

func failsBackend(ps []c17piece) bool {
	for _, p := range ps {
		if p.fails == "syntax" {
			return false
		}
		if p.fails == "backend" {
			return true
		}
	}
	return false
}

func classifyC17(r *simkit.Run) {}
