package w1proxy

import (
	"fmt"
	"strconv"
	"strings"

	"github.com/XiaoMi/Gaea/models"

	"verif/harness/mycli"
	"verif/harness/myproto"
	"verif/harness/mysim"
	"verif/harness/simkit"
)

// C21: read-only users cannot change data or schema.

func init() {
	worlds["C21"] = &simkit.World{Property: "C21", Run: runC21, Classify: classifyC21, TraceCap: 2000, MinBudget: 250}
}

type c21stmt struct {
	kind     string // what the statement is, by construction
	modifies bool
	head     string // leading keyword(s)
	rest     string // the remainder; %M is replaced by the marker (or by ? in a prepared statement)
}

var c21kinds = []c21stmt{
	{"insert", true, "insert", "into t_plain (id, a) values (%M, 1)"},
	{"insert-ignore", true, "insert", "ignore into t_plain (id, a) values (%M, 1)"},
	{"insert-select", true, "insert", "into t_plain select * from t_other where id = %M"},
	{"insert-set", true, "insert", "t_plain set id = %M"},
	{"replace", true, "replace", "into t_plain (id, a) values (%M, 1)"},
	{"replace-set", true, "replace", "t_plain set id = %M"},
	{"update", true, "update", "t_plain set a = 2 where id = %M"},
	{"update-ignore", true, "update", "ignore t_plain set a = 2 where id = %M"},
	{"delete", true, "delete", "from t_plain where id = %M"},
	{"delete-quick", true, "delete", "quick from t_plain where id = %M"},
	{"create-table", true, "create", "table t%M (id int)"},
	{"create-index", true, "create", "index i%M on t_plain (a)"},
	{"alter-table", true, "alter", "table t_plain add column c%M int"},
	{"drop-table", true, "drop", "table t%M"},
	{"drop-index", true, "drop", "index i%M on t_plain"},
	{"truncate", true, "truncate", "table t%M"},
	{"truncate-short", true, "truncate", "t%M"},
	{"rename", true, "rename", "table t%M to u%M"},
	{"load-data", true, "load", "data infile '/tmp/%M.csv' into table t_plain"},
	{"select", false, "select", "* from t_plain where id = %M"},
	{"select", false, "select", "* from t_plain where id = %M"},
	{"show", false, "show", "tables"},
	{"begin", false, "begin", ""},
	{"commit", false, "commit", ""},
	{"set", false, "set", "@x = %M"},
}

func caseOf(tp *simkit.Tape, w string) string {
	switch tp.Choose(4) {
	case 1:
		return strings.ToUpper(w)
	case 2:
		return strings.ToUpper(w[:1]) + w[1:]
	case 3:
		b := []byte(w)
		for i := range b {
			if i%2 == 1 {
				b[i] = byte(strings.ToUpper(string(b[i]))[0])
			}
		}
		return string(b)
	}
	return w
}

// c21text renders a statement with the decorations the property quantifies over.
func c21text(tp *simkit.Tape, k c21stmt, m string, allowNumbers bool) (string, string) {
	head := caseOf(tp, k.head)
	rest := strings.ReplaceAll(k.rest, "%M", m)
	sep := " "
	deco := ""
	if rest != "" {
		switch tp.Choose(11) {
		case 8:
			sep, deco = "\r\n", "crlf"
		case 9:
			sep, deco = "\f", "formfeed"
		case 10:
			sep, deco = "\v", "vtab"
		case 1:
			sep, deco = "\t", "tab"
		case 2:
			sep, deco = "\n", "newline"
		case 3:
			sep, deco = "/**/", "comment-as-separator"
		case 4:
			sep, deco = " /* c */ ", "inner-comment"
		case 5:
			sep, deco = " /*master*/ ", "master-hint"
		case 6:
			sep, deco = "  ", "two-spaces"
		}
	} else {
		sep = ""
	}
	body := head + sep + rest
	if k.kind == "update" && tp.Chance(1, 6) {
		body = head + "`t_plain` set a = 2 where id = " + m
		deco = "backtick-after-keyword"
	}
	lead := ""
	switch tp.Choose(13) {
	case 10:
		// a comment whose first word reads like another statement kind
		w := []string{"select", "show", "set", "use", "begin", "SELECT"}[tp.Choose(6)]
		lead = []string{"# " + w + " the rows first\n", "#" + w + "\n", "-- " + w + " 1\n", "/* " + w + " */ ", "/*" + w + "*/"}[tp.Choose(5)]
		deco += "+lead-comment-naming-a-read"
	case 11:
		// an executable comment that is empty: what follows is the statement
		lead = []string{"/*!*/ ", "/*! */", "/*!50000 */ ", "/*!40101*/"}[tp.Choose(4)]
		deco += "+lead-empty-executable-comment"
	case 12:
		lead, deco = "/**/", deco+"+lead-empty-comment"
	case 1:
		lead, deco = " ", deco+"+lead-space"
	case 2:
		lead, deco = "\n\t ", deco+"+lead-newline"
	case 3:
		lead, deco = "/* app:x */ ", deco+"+lead-comment"
	case 4:
		lead, deco = "/* a */ /* b */", deco+"+lead-two-comments"
	case 5:
		lead, deco = "-- note\n", deco+"+lead-dashdash"
	case 6:
		lead, deco = "# note\n", deco+"+lead-hash"
	case 7:
		if rest != "" {
			ver := ""
			if allowNumbers && tp.Chance(1, 2) {
				ver = "40001 "
			} else {
				ver = " "
			}
			body = "/*!" + ver + body + " */"
			deco += "+executable-comment"
		}
	}
	trail := ""
	switch tp.Choose(6) {
	case 1:
		trail = ";"
	case 2:
		trail = " ;"
	case 3:
		trail = " /* t */"
	}
	if deco == "" {
		deco = "plain"
	}
	return lead + body + trail, deco
}

type c21world struct{}

func runC21(r *simkit.Run) {
	tp := r.Tape
	r.World = &c21world{}
	nClients := tp.Range(1, 3)
	opsPer := tp.Range(4, 10)
	nSlaves := tp.Choose(2)
	multiNS := tp.Chance(1, 2)
	sharded := tp.Chance(1, 3)
	withFlip := tp.Chance(1, 3)
	mkNS := func(flipFlag int) *models.Namespace {
		var ns *models.Namespace
		if sharded {
			ns = shardedNamespace("ns1", 2, nSlaves)
		} else {
			ns = baseNamespace("ns1", 1, nSlaves)
		}
		ns.SupportMultiQuery = multiNS
		ns.Users = append(ns.Users, &models.User{UserName: "ns1_ro0", Password: "pw_ro0", Namespace: "ns1", RWFlag: 1, RWSplit: 0},
			&models.User{UserName: "ns1_flip", Password: "pw_flip", Namespace: "ns1", RWFlag: flipFlag, RWSplit: 0})
		return ns
	}
	ns := mkNS(2)
	w, err := NewWorld(r, map[string]*models.Namespace{"ns1": ns}, WorldOpts{})
	if err != nil {
		r.Failf("harness", "NewWorld: %v", err)
		return
	}
	w.Cl.Logf = r.Logf
	r.SetSiteDensity(0, 0)
	cfg := fmt.Sprintf("clients=%d ops=%d slaves=%d multiQueryNamespace=%v shardRules=%v userMadeReadOnlyByReload=%v", nClients, opsPer, nSlaves, multiNS, sharded, withFlip)
	r.Logf("config %s", cfg)
	finished := 0
	rejected := map[string]bool{}
	forwarded := map[string]bool{}
	backendHas := func(m string) *mysim.Stmt {
		for _, st := range w.Cl.Log {
			if strings.Contains(st.SQL, m) {
				return st
			}
		}
		return nil
	}
	flipDone := false
	if withFlip {
		waits := tp.Range(0, 6)
		finishedAdmin := false
		_ = finishedAdmin
		r.Go("admin", func() {
			for x := 0; x < waits; x++ {
				simkit.Pause(r, "idle:admin")
			}
			if err := w.Manager.ReloadNamespacePrepare(mkNS(1)); err != nil {
				r.Logf("admin: prepare failed: %v", err)
				return
			}
			simkit.Pause(r, "idle:admin")
			if err := w.Manager.ReloadNamespaceCommit("ns1"); err != nil {
				r.Logf("admin: commit failed: %v", err)
				return
			}
			flipDone = true
			r.Fault("namespace-reload-makes-user-read-only")
			r.Logf("admin: ns1 reloaded, ns1_flip is read-only now")
		})
	}
	for i := 0; i < nClients; i++ {
		i := i
		users := [][2]string{{"ns1_ro", "pw_ro"}, {"ns1_ro0", "pw_ro0"}, {"ns1_ro", "pw_ro"}, {"ns1_rw", "pw_rw"}}
		u := users[tp.Choose(len(users))]
		if withFlip && (i == 0 || tp.Chance(1, 2)) {
			u = [2]string{"ns1_flip", "pw_flip"}
		}
		multiClient := tp.Chance(1, 2)
		type planned struct {
			k         c21stmt
			transport string
			sql, deco string
			marker    string
			pos       int // multi: position of the statement among the pieces
		}
		var script []planned
		for j := 0; j < opsPer; j++ {
			k := c21kinds[tp.Choose(len(c21kinds))]
			p := planned{k: k, marker: strconv.Itoa(markerOf(i, j))}
			switch c := tp.Choose(6); {
			case c == 0 && strings.Contains(k.rest, "= %M") || c == 0 && strings.Contains(k.rest, "(%M"):
				p.transport = "prepared"
				if multiNS && multiClient && tp.Chance(1, 3) {
					p.pos = 1 // prepared text with a harmless first piece
				}
			case c == 1 && multiNS && multiClient && k.rest != "":
				p.transport = "multi"
				p.pos = tp.Choose(3)
			default:
				p.transport = "query"
			}
			switch p.transport {
			case "prepared":
				p.sql, p.deco = c21text(tp, k, "?", false)
				if p.pos == 1 {
					p.sql = fmt.Sprintf("select * from t_plain where id = 7%d; ", 100000*(i+1)+j) + p.sql
					p.deco += "+second-piece-of-prepared-text"
				}
			case "multi":
				sql, deco := c21text(tp, k, p.marker, true)
				p.sql, p.deco = strings.TrimRight(strings.TrimSpace(sql), ";"), deco+"+multi"
			default:
				p.sql, p.deco = c21text(tp, k, p.marker, true)
			}
			script = append(script, p)
		}
		name := fmt.Sprintf("client%d", i)
		r.Go(name, func() {
			defer func() { finished++ }()
			o := mycli.Options{User: u[0], Password: u[1], DB: "db1"}
			if multiClient {
				o.ExtraCaps = myproto.CMultiStatements
			}
			c, err := w.Connect("", o)
			if err != nil {
				r.Failf("harness", "%s cannot connect: %v", name, err)
				return
			}
			for j, p := range script {
				if c.Dead {
					break
				}
				simkit.Pause(r, "idle:"+name)
				readOnly := u[0] != "ns1_rw" && (u[0] != "ns1_flip" || flipDone)
				if u[0] == "ns1_flip" && flipDone && p.k.modifies {
					r.Probe("write-on-session-opened-before-user-became-read-only")
				}
				var err error
				var sent string
				switch p.transport {
				case "prepared":
					sql := p.sql
					sent = "PREPARE " + sql + " EXECUTE(" + p.marker + ")"
					var st *mycli.Stmt
					st, err = c.Prepare(sql)
					if err == nil {
						n, _ := strconv.Atoi(p.marker)
						params := make([]mycli.Param, st.Params)
						for x := range params {
							params[x] = mycli.PInt64(int64(n))
						}
						_, err = c.Execute(st, params, true)
						if !c.Dead {
							c.CloseStmt(st.ID)
						}
					}
				case "multi":
					sql := p.sql
					var pieces []string
					for x := 0; x < 3; x++ {
						if x == p.pos {
							pieces = append(pieces, sql)
						} else {
							pieces = append(pieces, fmt.Sprintf("select * from t_plain where id = %s%d", "8", 100000*(i+1)+j*10+x))
						}
					}
					sent = strings.Join(pieces, "; ")
					_, err = c.Query(sent)
				default:
					sent = p.sql
					_, err = c.Query(p.sql)
				}
				r.Sched("op", fmt.Sprintf("%d/%s/%s/%s", i, p.k.kind, p.transport, p.deco))
				r.Logf("%s(%s) [%s %s %s] %q -> %s", name, u[0], p.k.kind, p.transport, p.deco, sent, errText(err))
				reached := backendHas(p.marker)
				if p.k.modifies && readOnly {
					if reached != nil {
						r.Failf("C21-write-reached-backend", "read-only user %s sent %q (%s, %s, as %s); backend %s (%s) received %q", u[0], sent, p.k.kind, p.deco, p.transport, reached.Backend, reached.Role, reached.SQL)
					}
					if err == nil {
						r.Failf("C21-write-not-rejected", "read-only user %s sent %q (%s, %s, as %s) and the proxy answered OK", u[0], sent, p.k.kind, p.deco, p.transport)
					}
					rejected[p.k.kind+"/"+p.transport] = true
					if p.transport == "multi" {
						// nothing after the refused piece may run
						for x := p.pos + 1; x < 3; x++ {
							if st := backendHas(fmt.Sprintf("8%d", 100000*(i+1)+j*10+x)); st != nil {
								r.Failf("C21-write-reached-backend", "after the refused piece of %q the backend still received %q", sent, st.SQL)
							}
						}
					}
				}
				if p.k.modifies && !readOnly && reached != nil {
					forwarded[p.k.kind] = true
				}
			}
			simkit.Pause(r, "idle:"+name)
			c.Quit()
		})
	}
	driveBusy(r, tp, 4000, nil, func() bool { return finished < nClients })
	r.Nontrivial = len(rejected) > 0
	for k := range rejected {
		r.Probe("refused:" + k)
	}
	for k := range forwarded {
		r.Probe("read-write-user-forwarded:" + k)
	}
	r.State(simkit.Hash(cfg))
	r.Sample = map[string]interface{}{"config": cfg, "refused": len(rejected), "trace_head": head(r.Trace(), 30)}
	w.Shutdown()
}

func classifyC21(r *simkit.Run) {}
