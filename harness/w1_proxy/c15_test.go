package w1proxy

import (
	"bytes"
	"encoding/binary"
	"fmt"
	"math"
	"math/big"
	"strconv"
	"strings"

	"github.com/XiaoMi/Gaea/models"

	"verif/harness/mycli"
	"verif/harness/myproto"
	"verif/harness/simkit"
)

// C15: binding parameters preserves their values and cannot change the statement.

func init() {
	worlds["C15"] = &simkit.World{Property: "C15", Run: runC15, Classify: func(*simkit.Run) {}, TraceCap: 2500, MinBudget: 250}
}

// c15val is one bound value with its meaning, independent of the wire encoding.
type c15val struct {
	p    mycli.Param
	kind string // null | int | float32 | float64 | bytes | date | datetime | time
	i    *big.Int
	f    float64
	b    []byte
	dt   [7]int // year month day hour minute second micro
	neg  bool   // time
	desc string
}

var c15specials = [][]byte{
	[]byte(`'`), []byte(`\`), []byte(`\'`), []byte(`' or 1=1 -- `), []byte(`\' or 1=1 -- `), []byte(`a'b`), []byte(`a\b`), []byte(`a''b`),
	[]byte(`\\`), []byte(`"`), []byte("\x00"), []byte("a\x00b"), []byte("\n"), []byte("\r\n"), []byte("\x1a"), []byte("\xff\xfe"), []byte("\xc3\x28"),
	[]byte("caf\xc3\xa9"), []byte("\xe5\xaf\x86\xe7\xa0\x81"), []byte(""), []byte("plain"), []byte("a?b"), []byte("%_"), []byte(`\%`), []byte("ends with \\"),
	[]byte("'; drop table t_plain; -- "), []byte("/* c */"), []byte("-- x"), []byte("# x"), []byte("NULL"), []byte("12"), []byte(" "),
}

func c15draw(tp *simkit.Tape) c15val {
	switch tp.Choose(14) {
	case 0:
		return c15val{p: mycli.PNull(), kind: "null", desc: "NULL"}
	case 1: // 64-bit signed
		v := []int64{0, 1, -1, math.MaxInt64, math.MinInt64, 42, -9000000000}[tp.Choose(7)]
		return c15val{p: mycli.PInt64(v), kind: "int", i: big.NewInt(v), desc: fmt.Sprintf("BIGINT %d", v)}
	case 2: // 64-bit unsigned
		v := []uint64{0, 1, math.MaxUint64, 1 << 63, math.MaxInt64, 18446744073709551614}[tp.Choose(6)]
		return c15val{p: mycli.PUint64(v), kind: "int", i: new(big.Int).SetUint64(v), desc: fmt.Sprintf("BIGINT UNSIGNED %d", v)}
	case 3: // narrower integers, signed and unsigned
		switch tp.Choose(6) {
		case 0:
			v := []int32{0, -1, math.MaxInt32, math.MinInt32}[tp.Choose(4)]
			return c15val{p: mycli.PInt32(v), kind: "int", i: big.NewInt(int64(v)), desc: fmt.Sprintf("INT %d", v)}
		case 1:
			v := []uint32{0, math.MaxUint32, 1 << 31}[tp.Choose(3)]
			p := mycli.PInt32(int32(v))
			p.Unsigned = true
			return c15val{p: p, kind: "int", i: big.NewInt(int64(v)), desc: fmt.Sprintf("INT UNSIGNED %d", v)}
		case 2:
			v := []int16{0, -1, math.MaxInt16, math.MinInt16}[tp.Choose(4)]
			return c15val{p: mycli.PInt16(v), kind: "int", i: big.NewInt(int64(v)), desc: fmt.Sprintf("SMALLINT %d", v)}
		case 3:
			v := []uint16{0, math.MaxUint16, 1 << 15}[tp.Choose(3)]
			p := mycli.PInt16(int16(v))
			p.Unsigned = true
			return c15val{p: p, kind: "int", i: big.NewInt(int64(v)), desc: fmt.Sprintf("SMALLINT UNSIGNED %d", v)}
		case 4:
			v := []int8{0, -1, math.MaxInt8, math.MinInt8}[tp.Choose(4)]
			return c15val{p: mycli.PInt8(v), kind: "int", i: big.NewInt(int64(v)), desc: fmt.Sprintf("TINYINT %d", v)}
		default:
			v := []uint8{0, math.MaxUint8, 128}[tp.Choose(3)]
			p := mycli.PInt8(int8(v))
			p.Unsigned = true
			return c15val{p: p, kind: "int", i: big.NewInt(int64(v)), desc: fmt.Sprintf("TINYINT UNSIGNED %d", v)}
		}
	case 4:
		v := []float64{0, 1.5, -1.5, 1e21, -1e-7, math.MaxFloat64, math.SmallestNonzeroFloat64, 0.1, 123456789.125, 1e15, 1e-5}[tp.Choose(11)]
		return c15val{p: mycli.PDouble(v), kind: "float64", f: v, desc: fmt.Sprintf("DOUBLE %g", v)}
	case 5:
		v := []float32{0, 1.5, -2.25, 0.1, math.MaxFloat32, 1e-10, 16777217}[tp.Choose(7)]
		return c15val{p: mycli.PFloat(v), kind: "float32", f: float64(v), desc: fmt.Sprintf("FLOAT %g", v)}
	case 6, 7, 8, 9: // strings and blobs
		var b []byte
		switch tp.Choose(3) {
		case 0:
			b = c15specials[tp.Choose(len(c15specials))]
		case 1: // two specials glued together
			b = append(append([]byte{}, c15specials[tp.Choose(len(c15specials))]...), c15specials[tp.Choose(len(c15specials))]...)
		default: // random bytes with a bias to the dangerous ones
			n := tp.Range(1, 12)
			for i := 0; i < n; i++ {
				if tp.Chance(1, 2) {
					b = append(b, []byte{'\'', '\\', '"', 0, '\n', 0x1a, '%', ' ', 'a'}[tp.Choose(9)])
				} else {
					b = append(b, byte(tp.Choose(256)))
				}
			}
		}
		p := mycli.PString(b)
		name := "VARCHAR"
		if tp.Chance(1, 3) {
			p = mycli.PBlob(b)
			name = "BLOB"
		}
		return c15val{p: p, kind: "bytes", b: b, desc: fmt.Sprintf("%s %q", name, b)}
	case 10: // date
		d := [][3]int{{2024, 2, 29}, {1000, 1, 1}, {9999, 12, 31}, {1970, 1, 1}, {0, 0, 0}}[tp.Choose(5)]
		data := []byte{4, byte(d[0]), byte(d[0] >> 8), byte(d[1]), byte(d[2])}
		if d == [3]int{0, 0, 0} && tp.Chance(1, 2) {
			data = []byte{0}
		}
		return c15val{p: mycli.Param{Type: myproto.TDate, Data: data}, kind: "date", dt: [7]int{d[0], d[1], d[2]}, desc: fmt.Sprintf("DATE %04d-%02d-%02d", d[0], d[1], d[2])}
	case 11, 12: // datetime / timestamp
		d := [][7]int{{2024, 2, 29, 23, 59, 59, 0}, {2001, 9, 9, 1, 46, 40, 123456}, {1970, 1, 1, 0, 0, 0, 1}, {9999, 12, 31, 23, 59, 59, 999999}, {2020, 5, 6, 0, 0, 0, 0}}[tp.Choose(5)]
		data := []byte{0, byte(d[0]), byte(d[0] >> 8), byte(d[1]), byte(d[2])}
		switch {
		case d[6] != 0:
			data = append(data, byte(d[3]), byte(d[4]), byte(d[5]), 0, 0, 0, 0)
			binary.LittleEndian.PutUint32(data[8:], uint32(d[6]))
		case d[3] != 0 || d[4] != 0 || d[5] != 0 || tp.Chance(1, 2):
			data = append(data, byte(d[3]), byte(d[4]), byte(d[5]))
		}
		data[0] = byte(len(data) - 1)
		t := byte(myproto.TDatetime)
		if tp.Chance(1, 3) {
			t = myproto.TTimestamp
		}
		return c15val{p: mycli.Param{Type: t, Data: data}, kind: "datetime", dt: d, desc: fmt.Sprintf("DATETIME %04d-%02d-%02d %02d:%02d:%02d.%06d", d[0], d[1], d[2], d[3], d[4], d[5], d[6])}
	default: // time: sign, days, h, m, s, micro
		type tm struct {
			neg           bool
			days, h, m, s int
			us            int
		}
		x := []tm{{false, 0, 12, 34, 56, 0}, {true, 0, 1, 2, 3, 0}, {false, 34, 22, 59, 59, 0}, {true, 34, 22, 59, 59, 999999}, {false, 0, 0, 0, 0, 500000}, {false, 1, 0, 0, 0, 0}, {false, 0, 0, 0, 0, 0}}[tp.Choose(7)]
		data := []byte{8, 0, byte(x.days), byte(x.days >> 8), 0, 0, byte(x.h), byte(x.m), byte(x.s)}
		if x.neg {
			data[1] = 1
		}
		if x.us != 0 {
			data = append(data, 0, 0, 0, 0)
			binary.LittleEndian.PutUint32(data[9:], uint32(x.us))
			data[0] = 12
		}
		return c15val{p: mycli.Param{Type: myproto.TTime, Data: data}, kind: "time", neg: x.neg, dt: [7]int{0, 0, 0, x.days*24 + x.h, x.m, x.s, x.us}, desc: fmt.Sprintf("TIME neg=%v %dd %02d:%02d:%02d.%06d", x.neg, x.days, x.h, x.m, x.s, x.us)}
	}
}

// c15lit is a literal as an independent scanner reads it.
type c15lit struct {
	kind string // string | number | null
	b    []byte
	text string
}

// scanLiteral reads one literal at the start of s under the lexical rules of the given sql_mode and returns it with the rest.
func scanLiteral(s string, noBackslash bool) (c15lit, string, error) {
	if len(s) == 0 {
		return c15lit{}, s, fmt.Errorf("no literal: end of statement")
	}
	if s[0] == '\'' {
		var out []byte
		i := 1
		for i < len(s) {
			ch := s[i]
			switch {
			case ch == '\\' && !noBackslash:
				if i+1 >= len(s) {
					return c15lit{}, s, fmt.Errorf("string literal ends inside an escape")
				}
				e := s[i+1]
				switch e {
				case '0':
					out = append(out, 0)
				case 'b':
					out = append(out, 8)
				case 'n':
					out = append(out, '\n')
				case 'r':
					out = append(out, '\r')
				case 't':
					out = append(out, '\t')
				case 'Z':
					out = append(out, 0x1a)
				case '%', '_':
					out = append(out, '\\', e)
				default:
					out = append(out, e)
				}
				i += 2
			case ch == '\'':
				if i+1 < len(s) && s[i+1] == '\'' {
					out = append(out, '\'')
					i += 2
					continue
				}
				return c15lit{kind: "string", b: out}, s[i+1:], nil
			default:
				out = append(out, ch)
				i++
			}
		}
		return c15lit{}, s, fmt.Errorf("unterminated string literal")
	}
	if len(s) >= 4 && strings.EqualFold(s[:4], "null") {
		return c15lit{kind: "null"}, s[4:], nil
	}
	i := 0
	if s[i] == '-' || s[i] == '+' {
		i++
	}
	d0 := i
	for i < len(s) && s[i] >= '0' && s[i] <= '9' {
		i++
	}
	if i < len(s) && s[i] == '.' {
		i++
		for i < len(s) && s[i] >= '0' && s[i] <= '9' {
			i++
		}
	}
	if i == d0 {
		return c15lit{}, s, fmt.Errorf("neither a string, a number nor NULL at %q", head1(s))
	}
	if i < len(s) && (s[i] == 'e' || s[i] == 'E') {
		j := i + 1
		if j < len(s) && (s[j] == '-' || s[j] == '+') {
			j++
		}
		k := j
		for k < len(s) && s[k] >= '0' && s[k] <= '9' {
			k++
		}
		if k > j {
			i = k
		}
	}
	return c15lit{kind: "number", text: s[:i]}, s[i:], nil
}

func head1(s string) string {
	if len(s) > 24 {
		return s[:24] + "..."
	}
	return s
}

// denotes tells whether a literal means exactly the bound value.
func (v c15val) denotes(l c15lit) bool {
	switch v.kind {
	case "null":
		return l.kind == "null"
	case "int":
		if l.kind != "number" {
			return false
		}
		x, ok := new(big.Int).SetString(strings.TrimPrefix(l.text, "+"), 10)
		return ok && x.Cmp(v.i) == 0
	case "float64":
		if l.kind != "number" {
			return false
		}
		f, err := strconv.ParseFloat(l.text, 64)
		return err == nil && f == v.f
	case "float32":
		if l.kind != "number" {
			return false
		}
		f, err := strconv.ParseFloat(l.text, 32)
		return err == nil && float32(f) == float32(v.f)
	case "bytes":
		return l.kind == "string" && bytes.Equal(l.b, v.b)
	case "date":
		var y, m, d int
		if l.kind != "string" {
			return false
		}
		n, _ := fmt.Sscanf(string(l.b), "%d-%d-%d", &y, &m, &d)
		return n == 3 && [3]int{y, m, d} == [3]int{v.dt[0], v.dt[1], v.dt[2]} && len(l.b) == 10
	case "datetime":
		if l.kind != "string" {
			return false
		}
		var y, m, d, h, mi, s int
		txt := string(l.b)
		frac := 0
		if i := strings.IndexByte(txt, '.'); i >= 0 {
			fs := (txt[i+1:] + "000000")[:6]
			f, err := strconv.Atoi(fs)
			if err != nil || len(txt[i+1:]) > 6 {
				return false
			}
			frac = f
			txt = txt[:i]
		}
		if len(txt) == 10 {
			txt += " 00:00:00"
		}
		n, _ := fmt.Sscanf(txt, "%d-%d-%d %d:%d:%d", &y, &m, &d, &h, &mi, &s)
		return n == 6 && [7]int{y, m, d, h, mi, s, frac} == v.dt
	case "time":
		if l.kind != "string" {
			return false
		}
		txt := string(l.b)
		neg := strings.HasPrefix(txt, "-")
		txt = strings.TrimPrefix(txt, "-")
		frac := 0
		if i := strings.IndexByte(txt, '.'); i >= 0 {
			fs := (txt[i+1:] + "000000")[:6]
			f, err := strconv.Atoi(fs)
			if err != nil || len(txt[i+1:]) > 6 {
				return false
			}
			frac = f
			txt = txt[:i]
		}
		var h, mi, s int
		n, _ := fmt.Sscanf(txt, "%d:%d:%d", &h, &mi, &s)
		zero := v.dt == [7]int{}
		return n == 3 && [4]int{h, mi, s, frac} == [4]int{v.dt[3], v.dt[4], v.dt[5], v.dt[6]} && (neg == v.neg || zero)
	}
	return false
}

func runC15(r *simkit.Run) {
	tp := r.Tape
	ns := baseNamespace("ns1", 1, 0)
	w, err := NewWorld(r, map[string]*models.Namespace{"ns1": ns}, WorldOpts{})
	if err != nil {
		r.Failf("harness", "NewWorld: %v", err)
		return
	}
	w.Cl.Logf = r.Logf
	r.SetSiteDensity(0, 0)
	nExec := tp.Range(3, 10)
	modes := []string{"", "NO_BACKSLASH_ESCAPES", "STRICT_TRANS_TABLES,NO_BACKSLASH_ESCAPES", "ANSI_QUOTES", "no_backslash_escapes"}
	finished := false
	executed, refused, underNBE := 0, 0, 0
	r.Go("client", func() {
		defer func() { finished = true }()
		c, err := w.Connect("", mycli.Options{User: "ns1_rw", Password: "pw_rw", DB: "db1"})
		if err != nil {
			r.Failf("harness", "cannot connect: %v", err)
			return
		}
	stmts:
		for j := 0; j < nExec; j++ {
			if c.Dead {
				r.Failf("harness", "connection lost")
				return
			}
			if j == 0 && tp.Chance(2, 3) || j > 0 && tp.Chance(1, 5) {
				mode := modes[tp.Choose(len(modes))]
				q := fmt.Sprintf("set sql_mode = '%s'", mode)
				if tp.Chance(1, 3) {
					q = fmt.Sprintf("set session sql_mode='%s'", mode)
				}
				_, serr := c.Query(q)
				r.Logf("%s -> %s", q, errText(serr))
				r.Fault("sql_mode-changed")
			}
			m := markerOf(0, j)
			np := tp.Range(1, 4)
			var vals []c15val
			for k := 0; k < np; k++ {
				vals = append(vals, c15draw(tp))
			}
			// template pieces around the markers
			var pieces []string
			switch tp.Choose(3) {
			case 0:
				pieces = append(pieces, fmt.Sprintf("select * from t_plain where id = %d and p0 = ", m))
				for k := 1; k < np; k++ {
					pieces = append(pieces, fmt.Sprintf(" and p%d = ", k))
				}
				pieces = append(pieces, " and tail = 'end'")
			case 1:
				pieces = append(pieces, fmt.Sprintf("insert into t_plain (id, p0, p1, p2, p3) values (%d, ", m))
				for k := 1; k < np; k++ {
					pieces = append(pieces, ", ")
				}
				pieces = append(pieces, ")")
			default:
				pieces = append(pieces, "update t_plain set p0 = ")
				for k := 1; k < np; k++ {
					pieces = append(pieces, fmt.Sprintf(", p%d = ", k))
				}
				pieces = append(pieces, fmt.Sprintf(" where id = %d", m))
			}
			sql := strings.Join(pieces, "?")
			st, perr := c.Prepare(sql)
			if perr != nil || st.Params != np {
				r.Failf("harness", "prepare %q: %v (params %d)", sql, perr, stParams(st))
				return
			}
			var params []mycli.Param
			var descs []string
			for _, v := range vals {
				params = append(params, v.p)
				descs = append(descs, v.desc)
			}
			if tp.Chance(1, 5) {
				// the session's sql_mode changes between PREPARE and EXECUTE: what counts is the mode at execution
				mode := modes[tp.Choose(len(modes))]
				q := fmt.Sprintf("set sql_mode = '%s'", mode)
				_, serr := c.Query(q)
				r.Logf("%s (after prepare) -> %s", q, errText(serr))
				r.Fault("sql_mode-changed")
				r.Probe("sql_mode-changed-between-prepare-and-execute")
			}
			rounds := 1
			if tp.Chance(1, 3) {
				rounds = 2 // execute again without re-sending the parameter types, after another command used the connection
			}
			for round := 0; round < rounds; round++ {
				if round == 1 {
					switch tp.Choose(3) {
					case 0:
						c.Ping()
					case 1:
						c.Query(fmt.Sprintf("select %d /* in between */", markerOf(1, j)))
					default:
						c.Query(fmt.Sprintf("set sql_mode = '%s'", modes[tp.Choose(len(modes))]))
						r.Fault("sql_mode-changed")
					}
					r.Probe("re-executed-without-types")
				}
				from := len(w.Cl.Log)
				_, xerr := c.Execute(st, params, round == 0)
				var got []string
				var gotMode []string
				for _, b := range w.Cl.Log[from:] {
					if b.Cmd == "query" && strings.Contains(b.SQL, fmt.Sprint(m)) {
						got = append(got, b.SQL)
						gotMode = append(gotMode, b.Before.Vars["sql_mode"])
					}
				}
				r.Sched("op", fmt.Sprintf("exec/%d/%v", np, xerr == nil))
				r.Logf("execute %q with %v -> %s; backend received %q (sql_mode %q)", sql, descs, errText(xerr), got, gotMode)
				for _, v := range vals {
					r.Probe("bound-" + v.kind)
				}
				if len(got) == 0 {
					refused++
					if xerr == nil {
						r.Failf("C15-not-executed", "EXECUTE of %q with %v was answered ok but no backend received it", sql, descs)
						return
					}
					c.CloseStmt(st.ID)
					continue stmts
				}
				if len(got) > 1 {
					r.Failf("C15-statement-structure-changed", "EXECUTE of %q with %v made %d statements reach the backend: %q", sql, descs, len(got), got)
					return
				}
				nbe := strings.Contains(strings.ToUpper(gotMode[0]), "NO_BACKSLASH_ESCAPES")
				if nbe {
					underNBE++
					r.Probe("executed-under-NO_BACKSLASH_ESCAPES")
				}
				rest := normSQL(got[0])
				for k := 0; k <= np; k++ {
					piece := pieces[k]
					if k == np {
						piece = normSQL("x" + piece)[1:]
					}
					if !strings.HasPrefix(rest, piece) {
						r.Failf("C15-statement-structure-changed", "EXECUTE of %q with %v under sql_mode %q: the backend received %q; read with that sql_mode it is not the template with one literal per placeholder (expected %q at %q)", sql, descs, gotMode[0], got[0], piece, head1(rest))
						return
					}
					rest = rest[len(piece):]
					if k == np {
						break
					}
					lit, after, lerr := scanLiteral(rest, nbe)
					if lerr != nil {
						r.Failf("C15-statement-structure-changed", "EXECUTE of %q with %v under sql_mode %q: the backend received %q; placeholder %d: %v", sql, descs, gotMode[0], got[0], k, lerr)
						return
					}
					if !vals[k].denotes(lit) {
						r.Failf("C15-value-changed", "EXECUTE of %q under sql_mode %q: placeholder %d was bound to %s but the literal in %q denotes %s", sql, gotMode[0], k, vals[k].desc, got[0], litText(lit))
						return
					}
					rest = after
				}
				if rest != "" {
					r.Failf("C15-statement-structure-changed", "EXECUTE of %q with %v under sql_mode %q: the backend received %q; text %q follows the template", sql, descs, gotMode[0], got[0], head1(rest))
					return
				}
				executed++
			}
			c.CloseStmt(st.ID)
		}
		c.Quit()
	})
	driveBusy(r, tp, 3000, nil, func() bool { return !finished })
	r.Nontrivial = executed > 0
	if refused > 0 {
		r.Probe("execution-refused-by-proxy")
	}
	r.State(simkit.Hash(fmt.Sprint(executed, refused, underNBE)))
	r.Sample = map[string]interface{}{"executed": executed, "refused": refused, "under_no_backslash_escapes": underNBE, "trace_head": head(r.Trace(), 30)}
	w.Shutdown()
}

func stParams(st *mycli.Stmt) int {
	if st == nil {
		return -1
	}
	return st.Params
}

func litText(l c15lit) string {
	switch l.kind {
	case "string":
		return fmt.Sprintf("the string %q", l.b)
	case "number":
		return "the number " + l.text
	}
	return "NULL"
}
