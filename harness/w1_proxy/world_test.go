package w1proxy

import (
	"fmt"
	"sort"
	"strings"
	"time"

	"github.com/XiaoMi/Gaea/backend"
	"github.com/XiaoMi/Gaea/models"
	"github.com/XiaoMi/Gaea/proxy/server"
	"github.com/XiaoMi/Gaea/util/verifhook"

	"verif/harness/mycli"
	"verif/harness/mysim"
	"verif/harness/simkit"
	"verif/harness/simnet"
)

// World is one simulated deployment: a real proxy (Manager + Server + sessions
// + pools + DirectConnections) between simulated clients and simulated MySQL
// backends on a simulated network, all inside one synctest bubble.
type World struct {
	everNS  []*server.Namespace
	R       *simkit.Run
	Net     *simnet.Net
	Cl      *mysim.Cluster
	Manager *server.Manager
	Server  *server.Server
	NS      map[string]*models.Namespace
	clients int
}

type WorldOpts struct {
	SessionTimeoutSec int
	AuthPlugin        string
}

// sliceAddr is the dial address of a backend of a slice.
func sliceAddr(ns, slice, role string, i int) string {
	return fmt.Sprintf("%s-%s-%s%d.sim:3306", ns, slice, role, i)
}

// baseNamespace returns a valid configuration with nSlices slices, each with one
// master and nSlaves replicas, a read/write user and a read/write-split user.
func baseNamespace(name string, nSlices, nSlaves int) *models.Namespace {
	ns := &models.Namespace{
		Name:              name,
		Online:            true,
		AllowedDBS:        map[string]bool{"db1": true, "db2": true},
		DefaultPhyDBS:     map[string]string{"db1": "db1", "db2": "db2_phy"},
		SlowSQLTime:       "100000",
		DefaultSlice:      "slice-0",
		DefaultCharset:    "utf8mb4",
		DefaultCollation:  "utf8mb4_general_ci",
		MaxSqlExecuteTime: 5000,
		MaxSqlResultSize:  10000,
		DownAfterNoAlive:  32,
		Users: []*models.User{
			{UserName: name + "_rw", Password: "pw_rw", Namespace: name, RWFlag: 2, RWSplit: 0},
			{UserName: name + "_split", Password: "pw_split", Namespace: name, RWFlag: 2, RWSplit: 1},
			{UserName: name + "_ro", Password: "pw_ro", Namespace: name, RWFlag: 1, RWSplit: 1},
		},
	}
	for i := 0; i < nSlices; i++ {
		sl := &models.Slice{
			Name: fmt.Sprintf("slice-%d", i), UserName: "root", Password: "root",
			Master:   sliceAddr(name, fmt.Sprintf("s%d", i), "m", 0) + "#c3",
			Capacity: 2, MaxCapacity: 4, IdleTimeout: 3600, HandshakeTimeout: 1000,
		}
		for j := 0; j < nSlaves; j++ {
			sl.Slaves = append(sl.Slaves, sliceAddr(name, fmt.Sprintf("s%d", i), "r", j)+"#c3")
		}
		ns.Slices = append(ns.Slices, sl)
	}
	return ns
}

func stripAddr(a string) string {
	if i := strings.Index(a, "#"); i >= 0 {
		a = a[:i]
	}
	if i := strings.Index(a, "@"); i >= 0 {
		a = a[:i]
	}
	return a
}

// NewWorld starts the backends named by the configurations, then the proxy.
func NewWorld(r *simkit.Run, nss map[string]*models.Namespace, o WorldOpts) (*World, error) {
	w := &World{R: r, Net: simnet.New(), NS: nss}
	w.Cl = mysim.NewCluster(w.Net, r.Now, nil)
	verifhook.DialFn = w.Net.Dial
	// every namespace object the proxy builds (also staged ones that are never committed) is remembered,
	// so that Shutdown can close its pools and no timer goroutine outlives the run
	verifhook.Hooks["server.NewNamespace"] = func(v interface{}) {
		if n, ok := v.(*server.Namespace); ok && n != nil {
			w.everNS = append(w.everNS, n)
		}
	}
	verifhook.RankFn = func(k interface{}) string {
		// time wheel keys are *server.Session values: order them by their connection id
		if s, ok := k.(interface{ VerifConnID() uint32 }); ok {
			return fmt.Sprintf("sess:%010d", s.VerifConnID())
		}
		return ""
	}
	server.VerifResetConnID()
	var names []string
	for n := range nss {
		names = append(names, n)
	}
	sort.Strings(names)
	for _, n := range names {
		w.AddBackendsOf(nss[n])
	}
	m, err := server.VerifNewManager("c3", nss)
	if err != nil {
		return nil, err
	}
	w.Manager = m
	if o.SessionTimeoutSec == 0 {
		o.SessionTimeoutSec = 3600
	}
	s, err := server.VerifNewServer(m, o.SessionTimeoutSec, o.AuthPlugin, "5.7.25-gaea", "10.0.0.1:13306", simnet.Listener{A: "10.0.0.1:13306"})
	if err != nil {
		return nil, err
	}
	w.Server = s
	return w, nil
}

// AddBackendsOf registers simulated backends for every address of a configuration (idempotent).
func (w *World) AddBackendsOf(ns *models.Namespace) {
	for _, sl := range ns.Slices {
		add := func(a, role string) {
			a = stripAddr(a)
			if a == "" || w.Cl.Backends[a] != nil {
				return
			}
			w.Cl.AddBackend(a, ns.Name+"/"+sl.Name, role)
		}
		add(sl.Master, "master")
		for _, a := range sl.Slaves {
			add(a, "slave")
		}
		for _, a := range sl.StatisticSlaves {
			add(a, "statistic-slave")
		}
	}
}

// Dial opens a client connection to the proxy from the given address and
// starts the real session goroutine for it.
func (w *World) Dial(from string) *simnet.Conn {
	w.clients++
	if from == "" {
		from = fmt.Sprintf("192.168.1.%d:%d", 10+w.clients%200, 50000+w.clients)
	}
	cli, srv := w.Net.Pipe(fmt.Sprintf("client%d", w.clients), fmt.Sprintf("proxy<client%d", w.clients), from, "10.0.0.1:13306")
	go server.VerifServe(w.Server, srv)
	return cli
}

// Connect dials and logs in.
func (w *World) Connect(from string, o mycli.Options) (*mycli.Client, error) {
	return mycli.Connect(w.Dial(from), o)
}

// PoolStats sums InUse over every pool of the active generation.
func (w *World) PoolStats() (inUse int64, detail []string) {
	nss := server.VerifNamespaces(w.Manager)
	var names []string
	for n := range nss {
		names = append(names, n)
	}
	sort.Strings(names)
	for _, n := range names {
		slices := server.VerifSlices(nss[n])
		var sn []string
		for s := range slices {
			sn = append(sn, s)
		}
		sort.Strings(sn)
		for _, s := range sn {
			sl := slices[s]
			for _, dbi := range []*backend.DBInfo{sl.Master, sl.Slave, sl.StatisticSlave} {
				if dbi == nil {
					continue
				}
				for _, node := range dbi.Nodes {
					u := node.ConnPool.InUse()
					inUse += u
					if u != 0 || node.ConnPool.Available()+u != node.ConnPool.Capacity() {
						detail = append(detail, fmt.Sprintf("%s/%s %s inUse=%d avail=%d cap=%d", n, s, node.Address, u, node.ConnPool.Available(), node.ConnPool.Capacity()))
					}
				}
			}
		}
	}
	return
}

// Shutdown closes everything the run created so that its goroutines end.
func (w *World) Shutdown() {
	for _, c := range w.Net.Conns {
		if strings.HasPrefix(c.Name, "client") {
			c.Close()
		}
	}
	simkit.Sleep(100 * time.Millisecond)
	// Namespace.Close waits for every pooled connection to come back; after a leak that
	// never happens, so it runs aside and is given bounded simulated time.
	done := make(chan struct{})
	go func() {
		defer close(done)
		seen := map[*server.Namespace]bool{}
		for _, ns := range append(server.VerifAllNamespaces(w.Manager), w.everNS...) {
			if seen[ns] {
				continue
			}
			seen[ns] = true
			func() {
				defer func() { recover() }()
				ns.Close(false)
			}()
		}
	}()
	select {
	case <-done:
	case <-simkit.After(120 * time.Second):
	}
	server.VerifStopServer(w.Server)
	simkit.Sleep(70 * time.Second)
}

// PoolIdentity checks, for every pool of the active generation, the accounting
// identity of an idle pool view: 0 <= inUse, 0 <= available, available+inUse == capacity.
func (w *World) PoolIdentity() []string {
	var bad []string
	nss := server.VerifNamespaces(w.Manager)
	var names []string
	for n := range nss {
		names = append(names, n)
	}
	sort.Strings(names)
	for _, n := range names {
		slices := server.VerifSlices(nss[n])
		var sn []string
		for s := range slices {
			sn = append(sn, s)
		}
		sort.Strings(sn)
		for _, s := range sn {
			sl := slices[s]
			for _, dbi := range []*backend.DBInfo{sl.Master, sl.Slave, sl.StatisticSlave} {
				if dbi == nil {
					continue
				}
				for _, node := range dbi.Nodes {
					p := node.ConnPool
					if p.InUse() < 0 || p.Available() < 0 || p.InUse() > p.MaxCap() {
						bad = append(bad, fmt.Sprintf("pool %s/%s %s: inUse=%d available=%d capacity=%d max=%d", n, s, node.Address, p.InUse(), p.Available(), p.Capacity(), p.MaxCap()))
					}
				}
			}
		}
	}
	return bad
}
