package w1proxy

import (
	"fmt"
	"strings"

	"github.com/XiaoMi/Gaea/models"
	"github.com/XiaoMi/Gaea/parser"
	"github.com/XiaoMi/Gaea/parser/ast"
	_ "github.com/XiaoMi/Gaea/parser/tidb-types/parser_driver"

	"verif/harness/mycli"
	"verif/harness/simkit"
)

// C14: the parameters reported for a prepared statement are exactly the grammar's placeholders.

func init() {
	worlds["C14"] = &simkit.World{Property: "C14", Run: runC14, Classify: func(*simkit.Run) {}, TraceCap: 2500, MinBudget: 250}
}

// c14piece is a fragment of statement text; marker = the fragment is one parameter marker.
type c14piece struct {
	text   string
	marker bool
	kind   string
}

// fragments that contain a question mark which is NOT a parameter
var c14strings = []c14piece{
	{"'a?b'", false, "single-quoted"},
	{"'?'", false, "single-quoted"},
	{`'it\'s ?'`, false, "backslash-escaped-quote"},
	{`'it''s ?'`, false, "doubled-quote"},
	{`'say "?"'`, false, "other-quote-inside"},
	{`'back\\'`, false, "escaped-backslash-at-end"},
	{`'x\\\' ?'`, false, "escaped-backslash-then-escaped-quote"},
	{`"dq ?"`, false, "double-quoted"},
	{`"dq \" ?"`, false, "backslash-escaped-quote"},
	{`"dq "" ?"`, false, "doubled-quote"},
	{`"it's ?"`, false, "other-quote-inside"},
	{`''`, false, "empty-string"},
	{`'semi;?'`, false, "single-quoted"},
	{`'a;b'`, false, "semicolon-in-string"},
}
var c14idents = []c14piece{
	{"`c?1`", false, "backquoted-identifier"},
	{"`it's`", false, "backquoted-identifier-with-quote"},
	{"`a``?`", false, "backquoted-identifier-doubled"},
	{"`q\"?`", false, "backquoted-identifier-with-quote"},
}
var c14comments = []c14piece{
	{"/* ? */", false, "c-comment"},
	{"/* it's ? */", false, "c-comment-with-quote"},
	{"/*/ why? */", false, "c-comment-opening-with-a-slash"},
	{"/*/ it's ? */", false, "c-comment-opening-with-a-slash"},
	{"/**/", false, "empty-c-comment"},
	{"/*? */", false, "c-comment"},
	{"/* ? **/", false, "c-comment-closing-with-two-stars"},
	{"/* a;b ? */", false, "c-comment-with-semicolon"},
	{"-- ? dash\n", false, "dash-comment"},
	{"-- it's ?\n", false, "dash-comment-with-quote"},
	{"# ? hash\n", false, "hash-comment"},
	{"# say \"?\n", false, "hash-comment-with-quote"},
}

// c14gen builds one statement: select <items> from t_plain where id = <marker> <conditions>.
func c14gen(tp *simkit.Tape, m int) (pieces []c14piece) {
	add := func(p c14piece) { pieces = append(pieces, p) }
	lit := func(s string) { add(c14piece{text: s}) }
	maybeComment := func() {
		if tp.Chance(1, 5) {
			lit(" ")
			add(c14comments[tp.Choose(len(c14comments))])
		}
	}
	lit("select ")
	n := tp.Range(1, 3)
	for i := 0; i < n; i++ {
		if i > 0 {
			lit(", ")
		}
		switch tp.Choose(4) {
		case 0:
			lit("a")
		case 1:
			add(c14strings[tp.Choose(len(c14strings))])
		case 2:
			lit("b as ")
			add(c14idents[tp.Choose(len(c14idents))])
		case 3:
			add(c14piece{text: "?", marker: true})
		}
		maybeComment()
	}
	lit(" from t_plain")
	maybeComment()
	lit(fmt.Sprintf(" where id = %d", m))
	k := tp.Range(0, 4)
	for i := 0; i < k; i++ {
		lit(" and ")
		switch tp.Choose(5) {
		case 0, 1:
			lit(fmt.Sprintf("c%d = ", i))
			add(c14piece{text: "?", marker: true})
		case 2:
			lit(fmt.Sprintf("c%d = ", i))
			add(c14strings[tp.Choose(len(c14strings))])
		case 3:
			add(c14idents[tp.Choose(len(c14idents))])
			lit(" = ")
			add(c14piece{text: "?", marker: true})
		case 4:
			lit(fmt.Sprintf("c%d in (", i))
			add(c14piece{text: "?", marker: true})
			lit(",")
			add(c14strings[tp.Choose(len(c14strings))])
			lit(",")
			add(c14piece{text: "?", marker: true})
			lit(")")
		}
		maybeComment()
	}
	return
}

func c14text(pieces []c14piece, vals []string) (string, int) {
	var sb strings.Builder
	n := 0
	for _, p := range pieces {
		if p.marker && vals != nil {
			sb.WriteString(vals[n])
			n++
			continue
		}
		if p.marker {
			n++
		}
		sb.WriteString(p.text)
	}
	return sb.String(), n
}

// lexerMarkers counts the parameter markers the repository's own SQL lexer finds (the grammar of the statement).
func lexerMarkers(sql string) (int, error) {
	node, err := parser.ParseSQL(sql)
	if err != nil {
		return 0, err
	}
	v := &markerCounter{}
	node.Accept(v)
	return v.n, nil
}

type markerCounter struct{ n int }

func (v *markerCounter) Enter(n ast.Node) (ast.Node, bool) {
	if _, ok := n.(ast.ParamMarkerExpr); ok {
		v.n++
	}
	return n, false
}
func (v *markerCounter) Leave(n ast.Node) (ast.Node, bool) { return n, true }

func normSQL(s string) string {
	return strings.TrimRight(strings.TrimSpace(s), ";")
}

func runC14(r *simkit.Run) {
	tp := r.Tape
	ns := baseNamespace("ns1", 1, 0)
	w, err := NewWorld(r, map[string]*models.Namespace{"ns1": ns}, WorldOpts{})
	if err != nil {
		r.Failf("harness", "NewWorld: %v", err)
		return
	}
	w.Cl.Logf = r.Logf
	r.SetSiteDensity(0, 0)
	nStmts := tp.Range(2, 6)
	finished := false
	checked, withTraps := 0, 0
	r.Go("client", func() {
		defer func() { finished = true }()
		c, err := w.Connect("", mycli.Options{User: "ns1_rw", Password: "pw_rw", DB: "db1"})
		if err != nil {
			r.Failf("harness", "cannot connect: %v", err)
			return
		}
		for j := 0; j < nStmts; j++ {
			m := markerOf(0, j)
			pieces := c14gen(tp, m)
			sql, want := c14text(pieces, nil)
			traps := 0
			for _, p := range pieces {
				if !p.marker && strings.Contains(p.text, "?") {
					traps++
					r.Probe("question-mark-in-" + p.kind)
				}
			}
			if lm, lerr := lexerMarkers(sql); lerr != nil || lm != want {
				r.Failf("harness", "generator and the repository's lexer disagree on %q: generator %d, lexer %d (%v)", sql, want, lm, lerr)
				return
			}
			st, perr := c.Prepare(sql)
			r.Sched("op", fmt.Sprintf("prepare/%d/%d/%v", want, traps, perr == nil))
			if perr != nil {
				r.Logf("prepare %q -> %v", sql, perr)
				r.Failf("C14-valid-statement-refused", "PREPARE of %q (%d parameter markers, %d question marks inside literals/identifiers/comments) was refused: %v", sql, want, traps, perr)
				return
			}
			r.Logf("prepare %q -> id %d, %d parameters (grammar: %d)", sql, st.ID, st.Params, want)
			if int(st.Params) != want {
				r.Failf("C14-parameter-count", "PREPARE of %q reported %d parameters; the statement has %d parameter markers (and %d question marks inside literals, quoted identifiers or comments)", sql, st.Params, want, traps)
				return
			}
			// positions: bind distinct integers and look at the text a backend receives
			var params []mycli.Param
			var vals []string
			for k := 0; k < want; k++ {
				v := 7001 + 10*j + k
				params = append(params, mycli.PInt64(int64(v)))
				vals = append(vals, fmt.Sprint(v))
			}
			from := len(w.Cl.Log)
			_, xerr := c.Execute(st, params, true)
			expect, _ := c14text(pieces, vals)
			var got []string
			for _, b := range w.Cl.Log[from:] {
				if b.Cmd == "query" && strings.Contains(b.SQL, fmt.Sprint(m)) {
					got = append(got, b.SQL)
				}
			}
			r.Logf("execute -> %s; backend received %q", errText(xerr), got)
			if xerr != nil || len(got) != 1 {
				r.Failf("C14-execution-failed", "EXECUTE of %q with values %v answered %v and %d statements reached a backend", sql, vals, errText(xerr), len(got))
				return
			}
			if normSQL(got[0]) != normSQL(expect) {
				r.Failf("C14-parameter-position", "EXECUTE of %q with values %v: the backend received %q, the values belong at %q", sql, vals, got[0], expect)
				return
			}
			checked++
			if traps > 0 {
				withTraps++
			}
			if tp.Chance(1, 3) {
				c.CloseStmt(st.ID)
			}
		}
		c.Quit()
	})
	driveBusy(r, tp, 3000, nil, func() bool { return !finished })
	r.Nontrivial = withTraps > 0
	r.State(simkit.Hash(fmt.Sprint(checked, withTraps)))
	r.Sample = map[string]interface{}{"statements": checked, "with_non_parameter_question_marks": withTraps, "trace_head": head(r.Trace(), 30)}
	w.Shutdown()
}
