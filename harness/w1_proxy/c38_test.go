package w1proxy

import (
	"encoding/binary"
	"errors"
	"fmt"
	"strings"
	"time"

	"github.com/XiaoMi/Gaea/models"
	"github.com/XiaoMi/Gaea/proxy/server"

	"verif/harness/mycli"
	"verif/harness/myproto"
	"verif/harness/simkit"
)

// C38: malformed client input never crashes the proxy, hangs it or affects other sessions.

func init() {
	worlds["C38"] = &simkit.World{Property: "C38", Run: runC38, Classify: func(*simkit.Run) {}, TraceCap: 3000, MinBudget: 200}
}

// c38seeds are well-formed command payloads (command byte first); stmtID is patched in where 0xAABBCCDD stands.
func c38seed(tp *simkit.Tape, stmtID uint32) (string, []byte) {
	id := make([]byte, 4)
	binary.LittleEndian.PutUint32(id, stmtID)
	switch tp.Choose(14) {
	case 12, 13:
		// statement texts that are fragments: openings of comments, quotes and executable comments with nothing
		// (or something odd) behind them, as a query or as a text to prepare
		odd := []string{"--1", "--", "-- ", "--x\nselect 1", "/* c */ --x\nselect 1", "/*", "/*!", "/*!50000", "/* c", "#", "#\n", "# x", "'", "\"", "`", ";", ";;;", "select '",
			"select \"a", "select `", "(", "((((((((((", "select 1 --", "select 1 /*", "/*!*/", "/**/", "/*!40101 select 1", "-", "\\", "select 1;--", "\x00", " ", "", "\n", "use", "set", "begin;--1", "select 1 union", "insert", "explain", "kill", "?", "select ? ? ?", "select '\\"}
		txt := odd[tp.Choose(len(odd))]
		cmd := byte(myproto.ComQuery)
		kind := "query-fragment"
		if tp.Chance(1, 4) {
			cmd, kind = myproto.ComStmtPrepare, "prepare-fragment"
		}
		return kind, append([]byte{cmd}, txt...)
	case 0:
		return "query", append([]byte{myproto.ComQuery}, "select 1"...)
	case 1:
		return "query-multi", append([]byte{myproto.ComQuery}, "select 1; select 2"...)
	case 2:
		return "init-db", append([]byte{myproto.ComInitDB}, "db1"...)
	case 3:
		return "field-list", append(append([]byte{myproto.ComFieldList}, "t_plain"...), 0)
	case 4:
		return "prepare", append([]byte{myproto.ComStmtPrepare}, "select * from t_plain where a = ? and b = ?"...)
	case 5, 6:
		params := []mycli.Param{mycli.PInt64(7), mycli.PString([]byte("abc"))}
		if tp.Chance(1, 2) {
			params = []mycli.Param{{Type: myproto.TDatetime, Data: []byte{7, 0xe8, 0x07, 2, 29, 23, 59, 59}}, {Type: myproto.TTime, Data: []byte{8, 0, 1, 0, 0, 0, 2, 3, 4}}}
		}
		return "stmt-execute", append([]byte{myproto.ComStmtExecute}, mycli.BuildExecute(stmtID, params, true)...)
	case 7:
		return "stmt-long-data", append(append([]byte{myproto.ComStmtSendLongData}, id...), 0, 0, 'x', 'y')
	case 8:
		return "stmt-reset", append([]byte{myproto.ComStmtReset}, id...)
	case 9:
		return "stmt-close", append([]byte{myproto.ComStmtClose}, id...)
	case 10:
		return "ping", []byte{myproto.ComPing}
	default:
		return "other-command", []byte{[]byte{0x00, 0x05, 0x09, 0x0d, 0x11, 0x1b, 0x1f, 0x20, 0xfe, 0xff}[tp.Choose(10)], 1, 2, 3}
	}
}

// c38mutate damages a payload; the frame around it stays well formed.
func c38mutate(tp *simkit.Tape, p []byte) ([]byte, string) {
	q := append([]byte{}, p...)
	switch tp.Choose(9) {
	case 0: // cut
		if len(q) > 1 {
			return q[:1+tp.Choose(len(q)-1)], "truncated"
		}
		return q, "intact"
	case 1:
		return q[:1], "command-byte-only"
	case 2: // flip bytes
		n := tp.Range(1, 3)
		for i := 0; i < n && len(q) > 1; i++ {
			q[1+tp.Choose(len(q)-1)] ^= byte(1 << uint(tp.Choose(8)))
		}
		return q, "bit-flips"
	case 3: // overwrite a byte with a length-prefix marker
		if len(q) > 1 {
			q[1+tp.Choose(len(q)-1)] = []byte{0xfb, 0xfc, 0xfd, 0xfe, 0xff, 0x00}[tp.Choose(6)]
		}
		return q, "length-marker-byte"
	case 4: // statement id / leading integer out of range
		if len(q) >= 5 {
			copy(q[1:5], [][]byte{{0xff, 0xff, 0xff, 0xff}, {0, 0, 0, 0x80}, {0, 0, 0, 0}, {1, 0, 0, 0}}[tp.Choose(4)])
		}
		return q, "statement-id"
	case 5: // giant length-encoded prefix followed by little data
		q = append(q, 0xfe, 0xff, 0xff, 0xff, 0xff, 0xff, 0xff, 0xff, 0x7f, 'z')
		return q, "giant-length"
	case 6: // insert bytes
		at := 1
		if len(q) > 1 {
			at = 1 + tp.Choose(len(q))
		}
		ins := [][]byte{{0}, {0xff, 0xff}, {'?', '?', '?'}, {';', 1, ' '}, {'\'', '\\'}}[tp.Choose(5)]
		q = append(q[:at], append(append([]byte{}, ins...), q[at:]...)...)
		return q, "inserted-bytes"
	case 7: // bad type codes in an execute packet: the two bytes per parameter after the new-params flag
		for i := 10; i < len(q) && i < 16; i++ {
			if tp.Chance(1, 2) {
				q[i] = []byte{0xee, 0x0e, 0x06, 0xf4, 0x10}[tp.Choose(5)]
			}
		}
		return q, "type-codes"
	default:
		return q, "intact"
	}
}

func frame(payload []byte, seq byte) []byte {
	b := make([]byte, 4+len(payload))
	b[0], b[1], b[2], b[3] = byte(len(payload)), byte(len(payload)>>8), byte(len(payload)>>16), seq
	copy(b[4:], payload)
	return b
}

func runC38(r *simkit.Run) {
	tp := r.Tape
	ns := baseNamespace("ns1", 1, 0)
	ns.MaxClientConnections = 6
	ns.SupportMultiQuery = tp.Chance(1, 2)
	w, err := NewWorld(r, map[string]*models.Namespace{"ns1": ns}, WorldOpts{})
	if err != nil {
		r.Failf("harness", "NewWorld: %v", err)
		return
	}
	w.Cl.Logf = r.Logf
	r.SetSiteDensity(0, 0)
	nVictimOps := tp.Range(4, 14)
	nBystanders := tp.Range(1, 2)
	byOps := tp.Range(3, 8)
	r.Logf("config victimPackets=%d bystanders=%d multiQuery=%v", nVictimOps, nBystanders, ns.SupportMultiQuery)
	finished := 0
	answered, closed, reconnects := 0, 0, 0
	sentByBystanders := map[string]bool{}

	// the victim
	r.Go("victim", func() {
		defer func() { finished++ }()
		var c *mycli.Client
		var stmtID uint32
		connect := func() bool {
			var err error
			c, err = w.Connect("", mycli.Options{User: "ns1_rw", Password: "pw_rw", DB: "db1", ExtraCaps: 1 << 16})
			if err != nil {
				r.Failf("C38-login-refused-after-malformed-input", "a well-formed login after earlier malformed packets failed: %v", err)
				return false
			}
			stmtID = 0
			if st, err := c.Prepare("select * from t_plain where a = ? and b = ?"); err == nil {
				stmtID = st.ID
			}
			return true
		}
		for j := 0; j < nVictimOps; j++ {
			simkit.Pause(r, "idle:victim")
			if tp.Chance(1, 6) {
				// a malformed handshake response on a fresh connection
				nc := w.Dial("")
				pc := myproto.NewPacketConn(nc)
				nc.SetReadDeadline(time.Now().Add(5 * time.Second))
				if _, err := pc.ReadPacket(); err != nil {
					r.Failf("C38-no-greeting", "no greeting on a new connection: %v", err)
					return
				}
				l := myproto.Login{Caps: mycli.DefaultCaps() | myproto.CConnectWithDB | myproto.CPluginAuth, Charset: 45, User: "ns1_rw", Auth: myproto.NativeScramble("pw_rw", make([]byte, 20)), DB: "db1", Plugin: "mysql_native_password"}
				body, how := c38mutate(tp, append([]byte{0}, l.Encode()...))
				body = body[1:]
				if tp.Chance(1, 3) && len(body) > 36 {
					body = body[:tp.Range(0, 36)]
					how = "short-handshake"
				}
				nc.Write(frame(body, 1))
				pc.Seq = 2
				nc.SetReadDeadline(time.Now().Add(8 * time.Second))
				_, rerr := pc.ReadPacket()
				r.Probe("handshake-" + how)
				r.Sched("op", "handshake/"+how)
				r.Logf("victim handshake %s (%d bytes) -> %v", how, len(body), errText(rerr))
				if rerr != nil && strings.Contains(rerr.Error(), "timeout") {
					r.Failf("C38-no-response", "a malformed handshake response (%s, %d bytes) got neither an answer nor a close within 8 simulated seconds", how, len(body))
					return
				}
				nc.Close()
				continue
			}
			if c == nil || c.Dead {
				if c != nil {
					reconnects++
				}
				if !connect() {
					return
				}
			}
			name, seed := c38seed(tp, stmtID)
			payload, how := c38mutate(tp, seed)
			if tp.Chance(1, 10) {
				// frame-level damage: the header announces more than is sent, then the client goes away
				fr := frame(payload, 0)
				fr[0] += byte(tp.Range(1, 100))
				c.NC.Write(fr)
				simkit.Pause(r, "idle:victim")
				c.NC.Close()
				c.Dead = true
				r.Probe("frame-short-then-close")
				r.Sched("op", name+"/short-frame")
				r.Logf("victim %s: short frame, then close", name)
				continue
			}
			c.NC.Write(frame(payload, 0))
			c.PC.Seq = 1
			noReply := payload[0] == myproto.ComStmtSendLongData || payload[0] == myproto.ComStmtClose || payload[0] == myproto.ComQuit
			if noReply {
				// these commands are not answered: a ping must still be
				c.NC.Write(frame([]byte{myproto.ComPing}, 0))
			}
			c.NC.SetReadDeadline(time.Now().Add(8 * time.Second))
			// read the whole answer (a result set may span packets): until the stream goes quiet or ends
			got := 0
			var rerr error
			for {
				var p []byte
				p, rerr = c.PC.ReadPacket()
				if rerr != nil {
					break
				}
				got++
				_ = p
				c.NC.SetReadDeadline(time.Now().Add(500 * time.Millisecond))
				if got > 64 {
					break
				}
			}
			r.Probe("command-" + name)
			r.Probe("mutation-" + how)
			r.Sched("op", name+"/"+how)
			r.Logf("victim %s %s (% x) -> %d packets, then %v", name, how, head2(payload), got, errText(rerr))
			switch {
			case got > 0:
				answered++
			case rerr != nil && strings.Contains(rerr.Error(), "timeout"):
				r.Failf("C38-no-response", "command %s (%s, payload % x) got neither an answer nor a close within 8 simulated seconds", name, how, head2(payload))
				return
			default:
				closed++
			}
			// the stream position is unknown now (replies to the trailing ping, partial results): start over
			c.NC.Close()
			c.Dead = true
		}
		if c != nil && !c.Dead {
			c.NC.Close()
		}
	})

	// well-behaved sessions of the same namespace
	for b := 0; b < nBystanders; b++ {
		b := b
		name := fmt.Sprintf("bystander%d", b)
		r.Go(name, func() {
			defer func() { finished++ }()
			c, err := w.Connect("", mycli.Options{User: "ns1_rw", Password: "pw_rw", DB: "db1"})
			if err != nil {
				r.Failf("C38-other-session-affected", "%s cannot log in: %v", name, err)
				return
			}
			for j := 0; j < byOps; j++ {
				simkit.Pause(r, "idle:"+name)
				m := markerOf(1+b, j)
				sql := fmt.Sprintf("select * from t_plain where id = %d and note = 'bystander %d op %d'", m, b, j)
				sentByBystanders[sql] = true
				// the packet leaves in two segments, other sessions run in between
				fr := frame(append([]byte{myproto.ComQuery}, sql...), 0)
				cut := tp.Range(1, len(fr)-1)
				c.NC.Write(fr[:cut])
				simkit.Pause(r, "idle:"+name)
				c.NC.Write(fr[cut:])
				c.PC.Seq = 1
				from := len(w.Cl.Log)
				res, more, rerr := c.ReadResultForTest()
				_ = more
				if rerr != nil {
					r.Failf("C38-other-session-affected", "%s: %q was answered %v", name, sql, rerr)
					return
				}
				if len(res.Rows) != 1 || len(res.Columns) != 3 {
					r.Failf("C38-other-session-affected", "%s: %q got a result of %d rows, %d columns", name, sql, len(res.Rows), len(res.Columns))
					return
				}
				found := false
				for _, st := range w.Cl.Log[from:] {
					if st.Cmd == "query" && st.SQL == sql {
						found = true
					}
				}
				if !found {
					r.Failf("C38-other-session-affected", "%s: %q was answered but no backend received exactly that text", name, sql)
					return
				}
				r.Sched("op", name)
			}
			c.Quit()
		})
	}
	driveBusy(r, tp, 6000, nil, func() bool { return finished < 1+nBystanders })
	if r.Failed() {
		return
	}
	// every statement a backend executed for a bystander marker was sent by a bystander
	for _, st := range w.Cl.Log {
		if st.Cmd == "query" && strings.Contains(st.SQL, "bystander") && !sentByBystanders[st.SQL] {
			r.Failf("C38-other-session-affected", "a backend received %q, which no session sent", st.SQL)
			return
		}
	}
	// after all that a fresh client is served (connection slots were given back)
	done := false
	r.Go("fresh", func() {
		defer func() { done = true }()
		simkit.Sleep(2 * time.Second)
		c, err := w.Connect("", mycli.Options{User: "ns1_rw", Password: "pw_rw", DB: "db1"})
		if err != nil {
			var se *myproto.ServerError
			if errors.As(err, &se) {
				r.Failf("C38-login-refused-after-malformed-input", "after the malformed input (all its connections closed) a fresh login is refused: %v", err)
			} else {
				r.Failf("C38-login-refused-after-malformed-input", "after the malformed input a fresh login fails: %v", err)
			}
			return
		}
		if _, err := c.Query("select 1"); err != nil {
			r.Failf("C38-login-refused-after-malformed-input", "fresh session: select 1 -> %v", err)
		}
		c.Quit()
	})
	driveBusy(r, tp, 8000, nil, func() bool { return !done })
	if r.Failed() {
		return
	}
	// conservation: every client is gone, so the namespace's connection count is back to zero
	// (a slot leaked per damaged packet locks the namespace out after max_client_connections of them)
	simkit.Sleep(2 * time.Second)
	if n := server.VerifClientConnections(w.Manager, "ns1"); n > 0 {
		r.Failf("C38-connection-slot-leaked", "every client connection is closed but the proxy still counts %d client connections of the namespace (limit 6): malformed input used up connection slots", n)
		return
	}
	r.Nontrivial = answered > 0 && closed+reconnects > 0
	r.State(simkit.Hash(fmt.Sprint(answered, closed)))
	r.Sample = map[string]interface{}{"answered": answered, "closed_without_answer": closed, "trace_head": head(r.Trace(), 30)}
	w.Shutdown()
}

func head2(b []byte) []byte {
	if len(b) > 24 {
		return b[:24]
	}
	return b
}
