package w1proxy

import (
	"bytes"
	"crypto/sha1"
	"crypto/sha256"
	"encoding/hex"
	"fmt"
	"sort"
	"strings"
	"time"

	"github.com/XiaoMi/Gaea/models"

	"verif/harness/mycli"
	"verif/harness/simkit"
)

// C30: the handshake accepts exactly the auth responses that prove knowledge of a configured password.

func init() {
	worlds["C30"] = &simkit.World{Property: "C30", Run: runC30, Classify: func(*simkit.Run) {}, TraceCap: 2500, MinBudget: 250}
}

const (
	plNative = "mysql_native_password"
	plSha2   = "caching_sha2_password"
)

var c30pws = []string{"", "a", "pw", "secret-1", "p w", "pässwörd", "密码123", "*star", "pw:2", "0123456789012345678901234567890123456789", "Zz"}

// c30stored is one configured credential: the plain password and the way it is stored.
type c30stored struct {
	user, plain string
	hashed      bool
	lower       bool // hex digits of the stored hash in lower case
	ns          string
}

func sha1sum(b []byte) []byte { h := sha1.Sum(b); return h[:] }

func (c c30stored) stored() string {
	if !c.hashed {
		return c.plain
	}
	h := hex.EncodeToString(sha1sum(sha1sum([]byte(c.plain))))
	if !c.lower {
		h = strings.ToUpper(h)
	}
	return "*" + h
}

// refNative: would a MySQL server holding SHA1(SHA1(password)) accept this response for this salt?
func refNative(resp, salt []byte, plain string) bool {
	if plain == "" {
		return len(resp) == 0 // an account without a password is proven by the empty response, under either method
	}
	if len(resp) != 20 {
		return false
	}
	h2 := sha1sum(sha1sum([]byte(plain)))
	x := sha1sum(append(append([]byte{}, salt...), h2...))
	h1 := make([]byte, 20)
	for i := range h1 {
		h1[i] = resp[i] ^ x[i]
	}
	return bytes.Equal(sha1sum(h1), h2)
}

// refSha2: same for caching_sha2_password fast authentication.
func refSha2(resp, salt []byte, plain string) bool {
	if plain == "" {
		return len(resp) == 0
	}
	if len(resp) != 32 {
		return false
	}
	h1 := sha256.Sum256([]byte(plain))
	h2 := sha256.Sum256(h1[:])
	x := sha256.Sum256(append(append([]byte{}, h2[:]...), salt...))
	for i := range h1 {
		if resp[i] != h1[i]^x[i] {
			return false
		}
	}
	return true
}

func c30ns(name string, creds []c30stored) *models.Namespace {
	ns := baseNamespace(name, 1, 0)
	ns.Users = nil
	for _, c := range creds {
		if c.ns == name {
			ns.Users = append(ns.Users, &models.User{UserName: c.user, Password: c.stored(), Namespace: name, RWFlag: 2, RWSplit: 0})
		}
	}
	return ns
}

func c30draw(tp *simkit.Tape) []c30stored {
	var creds []c30stored
	users := []string{"app", "svc", "ro"}
	nss := []string{"nsa", "nsb", "nsc"}
	for _, u := range users[:tp.Range(1, 3)] {
		n := tp.Range(1, 3) // passwords of this user name, one namespace each
		perm := tp.Perm(len(c30pws))
		nsp := tp.Perm(len(nss))
		for k := 0; k < n; k++ {
			c := c30stored{user: u, plain: c30pws[perm[k]], ns: nss[nsp[k]]}
			if c.plain != "" && tp.Chance(1, 2) {
				c.hashed = true
				c.lower = tp.Chance(1, 3)
			}
			creds = append(creds, c)
		}
	}
	return creds
}

func runC30(r *simkit.Run) {
	tp := r.Tape
	proxyPlugin := []string{"", plNative, plSha2}[tp.Choose(3)]
	creds := c30draw(tp)
	// one reload that changes the credentials of one namespace
	var creds2 []c30stored
	reloadNS := ""
	if tp.Chance(1, 2) {
		reloadNS = []string{"nsa", "nsb", "nsc"}[tp.Choose(3)]
		for _, c := range creds {
			if c.ns != reloadNS {
				creds2 = append(creds2, c)
			}
		}
		for _, c := range c30draw(tp) {
			if c.ns != reloadNS {
				continue
			}
			dup := false
			for _, o := range creds2 {
				if o.user == c.user && (o.plain == c.plain || o.ns == c.ns) {
					dup = true
				}
			}
			if !dup {
				creds2 = append(creds2, c)
			}
		}
	}
	nsNames := map[string]bool{}
	for _, c := range append(append([]c30stored{}, creds...), creds2...) {
		nsNames[c.ns] = true
	}
	nss := map[string]*models.Namespace{}
	for n := range nsNames {
		ns := c30ns(n, creds)
		if len(ns.Users) > 0 {
			nss[n] = ns
		}
	}
	if len(nss) == 0 {
		return
	}
	w, err := NewWorld(r, nss, WorldOpts{AuthPlugin: proxyPlugin})
	if err != nil {
		r.Failf("harness", "NewWorld: %v", err)
		return
	}
	w.Cl.Logf = r.Logf
	r.SetSiteDensity(0, 0)
	cfgText := fmt.Sprintf("proxyPlugin=%q creds=%d reload=%q", proxyPlugin, len(creds), reloadNS)
	r.Logf("config %s", cfgText)
	for _, c := range creds {
		r.Logf("  configured %s %q plain=%q stored=%q", c.ns, c.user, c.plain, c.stored())
	}
	cur := creds
	nAttempts := tp.Range(4, 12)
	reloadAt := -1
	if reloadNS != "" {
		reloadAt = tp.Choose(nAttempts)
	}
	allUsers := []string{"app", "svc", "ro", "nobody"}
	accepted, refused, kinds := 0, 0, map[string]int{}
	finished := false
	r.Go("client", func() {
		defer func() { finished = true }()
		for i := 0; i < nAttempts; i++ {
			if i == reloadAt {
				ns2 := c30ns(reloadNS, creds2)
				if len(ns2.Users) == 0 {
					if _, ok := nss[reloadNS]; ok {
						if err := w.Manager.DeleteNamespace(reloadNS); err != nil {
							r.Failf("harness", "delete: %v", err)
							return
						}
					}
				} else {
					w.AddBackendsOf(ns2)
					if err := w.Manager.ReloadNamespacePrepare(ns2); err != nil {
						r.Failf("harness", "prepare: %v", err)
						return
					}
					if err := w.Manager.ReloadNamespaceCommit(reloadNS); err != nil {
						r.Failf("harness", "commit: %v", err)
						return
					}
				}
				cur = creds2
				r.Fault("credentials-reloaded")
				for _, c := range cur {
					r.Logf("  now configured %s %q plain=%q stored=%q", c.ns, c.user, c.plain, c.stored())
				}
			}
			simkit.Sleep(time.Duration(tp.Range(1, 900)) * time.Millisecond) // the salt is seeded from the clock
			user := allUsers[tp.Choose(len(allUsers))]
			var mine []c30stored
			for _, c := range cur {
				if c.user == user {
					mine = append(mine, c)
				}
			}
			// the password the client believes in
			var target c30stored
			haveTarget := false
			if len(mine) > 0 && !tp.Chance(1, 6) {
				target = mine[tp.Choose(len(mine))]
				haveTarget = true
			} else if len(cur) > 0 {
				target = cur[tp.Choose(len(cur))] // somebody else's password (or an unknown user with a real password)
			} else {
				target = c30stored{plain: "pw"}
			}
			declared := []string{plNative, plSha2, "none"}[tp.Choose(3)] // none: a client without CLIENT_PLUGIN_AUTH, speaks native
			kind := []string{"correct", "correct", "correct", "bitflip", "truncated", "extended", "empty", "random20", "random32", "stored-string", "other-method", "wrong-password"}[tp.Choose(12)]
			_ = haveTarget
			flipBit := tp.Choose(160)
			rnd := make([]byte, 32)
			for k := range rnd {
				rnd[k] = byte(tp.Choose(256))
			}
			var lastResp, lastSalt []byte
			lastPlugin := ""
			authFn := func(stage int, plugin string, salt []byte) []byte {
				eff := plugin
				if eff == "" || eff == "none" {
					eff = plNative // a server that names no method speaks mysql_native_password
				}
				scr := func(method, pw string) []byte {
					if method == plSha2 {
						return sha2Of(pw, salt)
					}
					return nativeOf(pw, salt)
				}
				var resp []byte
				switch kind {
				case "correct":
					resp = scr(eff, target.plain)
				case "bitflip":
					resp = scr(eff, target.plain)
					if len(resp) > 0 {
						resp[(flipBit/8)%len(resp)] ^= 1 << uint(flipBit%8)
					}
				case "truncated":
					resp = scr(eff, target.plain)
					if len(resp) > 0 {
						resp = resp[:len(resp)-1]
					}
				case "extended":
					pad := rnd[0]
					if rnd[1]&1 == 0 {
						pad = 0 // NUL padding
					}
					resp = append(scr(eff, target.plain), pad)
				case "empty":
					resp = nil
				case "random20":
					resp = append([]byte{}, rnd[:20]...)
				case "random32":
					resp = append([]byte{}, rnd...)
				case "stored-string":
					// somebody who read the configuration presents the stored string as if it were the password
					resp = scr(eff, target.stored())
				case "other-method":
					if eff == plSha2 {
						resp = scr(plNative, target.plain)
					} else {
						resp = scr(plSha2, target.plain)
					}
				case "wrong-password":
					resp = scr(eff, target.plain+"x")
				}
				lastResp, lastSalt, lastPlugin = append([]byte{}, resp...), append([]byte{}, salt...), eff
				return resp
			}
			c, err := w.Connect("", mycli.Options{User: user, Plugin: strings.Replace(declared, "none", "", 1), NoPluginAuth: declared == "none", DB: "db1", MaskCaps: true, AuthFn: authFn})
			got := ""
			if err == nil {
				res, qerr := c.Query(fmt.Sprintf("select %d", markerOf(0, i)))
				if qerr != nil || len(res) != 1 || len(res[0].Rows) != 1 {
					r.Failf("C30-session-unusable", "login %q accepted but the first query answered %v", user, errText(qerr))
					return
				}
				got = strings.SplitN(string(res[0].Rows[0][0]), "-", 2)[0]
				c.Quit()
				accepted++
			} else {
				refused++
			}
			kinds[kind]++
			// reference: which configured credentials does this response prove?
			var proves []c30stored // by the literal statement: correct native or sha2 scramble of a configured password
			for _, m := range mine {
				if refNative(lastResp, lastSalt, m.plain) || (!m.hashed && refSha2(lastResp, lastSalt, m.plain)) {
					proves = append(proves, m)
				}
			}
			mustAccept := false // a well-behaved client: correct scramble for the method in effect
			for _, m := range proves {
				if lastPlugin == plNative && refNative(lastResp, lastSalt, m.plain) {
					mustAccept = true
				}
				if lastPlugin == plSha2 && !m.hashed && refSha2(lastResp, lastSalt, m.plain) {
					mustAccept = true
				}
			}
			r.Sched("op", fmt.Sprintf("%s/%s/%v", kind, declared, err == nil))
			r.Logf("attempt %d user=%q believes=%q(%s) declared=%s in-effect=%s kind=%s resp=%x -> %s ns=%q; proves %d configured credential(s)", i, user, target.plain, target.ns, declared, lastPlugin, kind, lastResp, errText(err), got, len(proves))
			if err == nil && len(proves) == 0 {
				r.Failf("C30-wrong-proof-accepted", "user %q logged in with a %s response (%d bytes, method in effect %s) that is not the scramble of any password configured for that user (configured: %s)", user, kind, len(lastResp), lastPlugin, c30list(mine))
				return
			}
			if err != nil && mustAccept {
				r.Failf("C30-correct-proof-refused", "user %q presented the correct %s scramble of configured password %q (stored %q) and was refused: %v; all passwords of the user: %s", user, lastPlugin, proves[0].plain, proves[0].stored(), err, c30list(mine))
				return
			}
			if err == nil {
				ok := false
				for _, m := range proves {
					if m.ns == got {
						ok = true
					}
				}
				if !ok {
					r.Failf("C30-bound-to-wrong-namespace", "user %q proved %s but the session is bound to namespace %q", user, c30list(proves), got)
					return
				}
			}
		}
	})
	driveBusy(r, tp, 3000, nil, func() bool { return !finished })
	r.Nontrivial = accepted > 0 && refused > 0
	if accepted > 0 {
		r.Probe("login-accepted")
	}
	if refused > 0 {
		r.Probe("login-refused")
	}
	var ks []string
	for k := range kinds {
		ks = append(ks, k)
	}
	sort.Strings(ks)
	for _, k := range ks {
		r.Probe("response-" + k)
	}
	r.State(simkit.Hash(cfgText))
	r.Sample = map[string]interface{}{"config": cfgText, "accepted": accepted, "refused": refused, "trace_head": head(r.Trace(), 30)}
	w.Shutdown()
}

func c30list(cs []c30stored) string {
	var s []string
	for _, c := range cs {
		s = append(s, fmt.Sprintf("%s:%q stored %q", c.ns, c.plain, c.stored()))
	}
	return "[" + strings.Join(s, ", ") + "]"
}

// independent scrambles (not the repository's)
func nativeOf(pw string, salt []byte) []byte {
	if pw == "" {
		return nil
	}
	h1 := sha1sum([]byte(pw))
	h2 := sha1sum(h1)
	x := sha1sum(append(append([]byte{}, salt...), h2...))
	out := make([]byte, 20)
	for i := range out {
		out[i] = h1[i] ^ x[i]
	}
	return out
}

func sha2Of(pw string, salt []byte) []byte {
	if pw == "" {
		return nil
	}
	h1 := sha256.Sum256([]byte(pw))
	h2 := sha256.Sum256(h1[:])
	x := sha256.Sum256(append(append([]byte{}, h2[:]...), salt...))
	out := make([]byte, 32)
	for i := range out {
		out[i] = h1[i] ^ x[i]
	}
	return out
}
