package w1proxy

import (
	"fmt"
	"regexp"
	"strings"

	"github.com/XiaoMi/Gaea/models"

	"verif/harness/mycli"
	"verif/harness/myproto"
	"verif/harness/mysim"
	"verif/harness/simkit"
)

// C16: prepared statements are isolated and never reuse stale parameters.

func init() {
	worlds["C16"] = &simkit.World{Property: "C16", Run: runC16, Classify: classifyC16, TraceCap: 2500, MinBudget: 250}
}

type c16stmt struct {
	id      uint32
	known   bool // prepared and not closed
	nparams int
	table   string
	marker  int
	long    [][]byte // long data accumulated per parameter since the last execution / reset
	typed   bool     // parameter types have been sent once
	lastTyp []mycli.Param
}

var c16lit = regexp.MustCompile(`p[0-9] = ('[^']*'|[-A-Za-z0-9.]+)`)

func runC16(r *simkit.Run) {
	tp := r.Tape
	nClients := tp.Range(1, 2)
	opsPer := tp.Range(6, 18)
	withMalformed := tp.Chance(1, 2)
	if simkit.Params["partition"] == "well-formed" {
		withMalformed = false
	}
	ns := baseNamespace("ns1", 1, 0)
	w, err := NewWorld(r, map[string]*models.Namespace{"ns1": ns}, WorldOpts{})
	if err != nil {
		r.Failf("harness", "NewWorld: %v", err)
		return
	}
	w.Cl.Logf = r.Logf
	r.SetSiteDensity(0, 0)
	w.Cl.Fault = func(c *mysim.Conn, st *mysim.Stmt) *mysim.FaultAction {
		if strings.Contains(st.SQL, "t_missing") {
			return &mysim.FaultAction{Err: &myproto.ServerError{Code: 1146, State: "42S02", Msg: "Table 'db1.t_missing' doesn't exist"}}
		}
		return nil
	}
	cfg := fmt.Sprintf("clients=%d commands=%d malformedPackets=%v", nClients, opsPer, withMalformed)
	r.Logf("config %s", cfg)
	finished := 0
	executions := 0
	valueSeq := 0
	for i := 0; i < nClients; i++ {
		i := i
		name := fmt.Sprintf("client%d", i)
		// the command script is drawn up front; it refers to statements by slot (0..2)
		type cmd struct {
			kind   string // prepare execute long reset close execute-malformed execute-unknown reset-unknown long-unknown ping
			slot   int
			n      int // prepare: number of parameters; long: parameter index
			table  string
			vals   []int // execute: per parameter value selector
			bound  bool
			cut    int
			chunks int
		}
		var script []cmd
		for j := 0; j < opsPer; j++ {
			c := cmd{slot: tp.Choose(3)}
			switch k := tp.Choose(20); {
			case j < 2 || k <= 2:
				c.kind, c.n = "prepare", tp.Range(1, 3)
				c.table = []string{"t_plain", "t_plain", "t_plain", "t_missing"}[tp.Choose(4)]
			case k <= 10:
				c.kind = "execute"
				c.bound = tp.Chance(3, 4)
				for x := 0; x < 3; x++ {
					c.vals = append(c.vals, tp.Choose(5))
				}
			case k <= 13:
				c.kind, c.n, c.chunks = "long", tp.Choose(3), tp.Range(1, 2)
			case k == 14:
				c.kind = "reset"
			case k == 15:
				c.kind = "close"
			case k == 16 && withMalformed:
				c.kind, c.cut = "execute-malformed", tp.Range(1, 6)
				if tp.Chance(1, 3) {
					c.cut = -(4 + tp.Choose(5)) // only the statement id and 0-4 bytes of the header arrive
				}
				for x := 0; x < 3; x++ {
					c.vals = append(c.vals, tp.Choose(3))
				}
			case k == 17:
				c.kind = []string{"execute-unknown", "reset-unknown", "long-unknown"}[tp.Choose(3)]
			default:
				c.kind = "ping"
			}
			script = append(script, c)
		}
		r.Go(name, func() {
			defer func() { finished++ }()
			c, err := w.Connect("", mycli.Options{User: "ns1_rw", Password: "pw_rw", DB: "db1"})
			if err != nil {
				r.Failf("harness", "%s cannot connect: %v", name, err)
				return
			}
			slots := make([]*c16stmt, 3)
			nextMarker := 0
			backendSince := func(from int, marker int) []*mysim.Stmt {
				var out []*mysim.Stmt
				for _, st := range w.Cl.Log[from:] {
					if st.Cmd == "query" && strings.Contains(st.SQL, fmt.Sprint(marker)) {
						out = append(out, st)
					}
				}
				return out
			}
			for j, cm := range script {
				if c.Dead {
					break
				}
				simkit.Pause(r, "idle:"+name)
				s := slots[cm.slot]
				from := len(w.Cl.Log)
				switch cm.kind {
				case "prepare":
					m := markerOf(i, nextMarker)
					nextMarker++
					if other := slots[(cm.slot+1)%3]; other != nil && other.known && tp.Chance(1, 4) {
						// the same text as a statement that is still open: two handles of one statement must not share anything
						m, cm.n, cm.table = other.marker, other.nparams, other.table
						r.Probe("same-text-prepared-twice")
					}
					var conds []string
					for x := 0; x < cm.n; x++ {
						conds = append(conds, fmt.Sprintf("p%d = ?", x))
					}
					sql := fmt.Sprintf("select * from %s where id = %d and %s", cm.table, m, strings.Join(conds, " and "))
					st, err := c.Prepare(sql)
					r.Logf("%s #%d prepare slot%d %q -> %s", name, j, cm.slot, sql, errText(err))
					if err != nil {
						r.Failf("C16-prepare-refused", "%s: prepare of %q failed: %v", name, sql, err)
						break
					}
					if st.Params != cm.n {
						r.Failf("C16-prepare-refused", "%s: %q reports %d parameters", name, sql, st.Params)
					}
					for _, o := range slots {
						if o != nil && o.known && o.id == st.ID {
							r.Failf("C16-statement-id-reused", "%s: new statement got id %d which is still open", name, st.ID)
						}
					}
					slots[cm.slot] = &c16stmt{id: st.ID, known: true, nparams: cm.n, table: cm.table, marker: m, long: make([][]byte, cm.n)}
					// a statement that was in the slot stays open on the server: nothing may leak from it either
				case "execute", "execute-malformed":
					if s == nil {
						continue
					}
					params := make([]mycli.Param, s.nparams)
					want := make([]string, s.nparams)
					for x := 0; x < s.nparams; x++ {
						valueSeq++
						switch cm.vals[x] {
						case 0:
							params[x] = mycli.PInt64(int64(1000000 + valueSeq))
							want[x] = fmt.Sprint(1000000 + valueSeq)
						case 1:
							v := fmt.Sprintf("v%dx%d", i, valueSeq)
							params[x] = mycli.PString([]byte(v))
							want[x] = "'" + v + "'"
						case 2:
							params[x] = mycli.PInt32(int32(-valueSeq))
							want[x] = fmt.Sprint(-valueSeq)
						case 3:
							params[x] = mycli.PNull()
							want[x] = "NULL"
						default:
							v := fmt.Sprintf("w%dx%d", i, valueSeq)
							params[x] = mycli.PBlob([]byte(v))
							want[x] = "'" + v + "'"
						}
						if s.known && s.long[x] != nil && !params[x].Null {
							params[x] = mycli.Param{Type: myproto.TBlob, LongData: true}
							want[x] = "'" + string(s.long[x]) + "'"
						}
					}
					bound := cm.bound || !s.typed
					if !bound {
						// without new types the previous types stay in force: keep the values of those types
						for x := range params {
							if params[x].Type != s.lastTyp[x].Type && !params[x].LongData {
								bound = true
							}
						}
					}
					payload := mycli.BuildExecute(s.id, params, bound)
					malformed := cm.kind == "execute-malformed" && cm.cut < len(payload)-9
					if malformed && cm.cut < 0 {
						payload = payload[:-cm.cut]
						r.Probe("execute-packet-cut-inside-its-header")
					} else if malformed {
						payload = payload[:len(payload)-cm.cut]
					}
					res, err := c.ExecuteRaw(payload)
					got := backendSince(from, s.marker)
					r.Logf("%s #%d %s slot%d id=%d want %v -> %d results, %s", name, j, cm.kind, cm.slot, s.id, want, len(res), errText(err))
					executions++
					switch {
					case !s.known:
						r.Probe("execute-closed-statement")
						if err == nil || len(got) > 0 {
							r.Failf("C16-closed-statement-executed", "%s: statement %d was closed, execute returned %s and the backend received %d command(s)", name, s.id, errText(err), len(got))
						}
					case malformed:
						r.Probe("malformed-execute")
						// the packet lost its tail: the proxy must refuse it, or whatever it runs must not carry values of an earlier execution
						for _, st := range got {
							r.Failf("C16-malformed-execute-ran", "%s: truncated execute packet (cut %d bytes) of statement %d made the backend run %q", name, cm.cut, s.id, st.SQL)
						}
						if err == nil {
							r.Failf("C16-malformed-execute-ran", "%s: truncated execute packet (cut %d bytes) of statement %d was answered OK", name, cm.cut, s.id)
						}
					default:
						if s.table == "t_missing" {
							r.Probe("execution-failed-at-backend")
							if err == nil {
								r.Failf("C16-wrong-outcome", "%s: execution on the missing table returned ok", name)
							}
						} else if err != nil {
							r.Failf("C16-wrong-outcome", "%s: well-formed execute of statement %d (values %v) failed: %v", name, s.id, want, err)
						}
						if len(got) != 1 {
							r.Failf("C16-wrong-outcome", "%s: well-formed execute of statement %d reached the backend %d times", name, s.id, len(got))
							break
						}
						lits := c16lit.FindAllStringSubmatch(got[0].SQL, -1)
						var have []string
						for _, l := range lits {
							have = append(have, l[1])
						}
						if strings.ToUpper(fmt.Sprint(have)) != strings.ToUpper(fmt.Sprint(want)) {
							r.Failf("C16-stale-or-foreign-value", "%s: execute #%d of statement %d supplied %v (long data %q) but the backend ran %q", name, j, s.id, want, s.long, got[0].SQL)
						}
					}
					if s.known {
						if !malformed || err != nil {
							for x := range s.long {
								if s.long[x] != nil {
									r.Probe("execution-with-long-data")
								}
								s.long[x] = nil
							}
						}
						if malformed {
							// the server may or may not have taken the types of the truncated packet: send them again
							s.typed = false
						} else if bound {
							s.typed, s.lastTyp = true, params
						}
					}
				case "long":
					if s == nil || cm.n >= s.nparams {
						continue
					}
					for x := 0; x < cm.chunks; x++ {
						valueSeq++
						chunk := []byte(fmt.Sprintf("L%dx%d", i, valueSeq))
						if tp.Chance(1, 5) {
							chunk = []byte{} // an empty chunk: the value so far is the empty string, not "no long data"
							r.Probe("empty-long-data-chunk")
						}
						c.SendLongData(s.id, uint16(cm.n), chunk)
						if s.known {
							if s.long[cm.n] == nil {
								s.long[cm.n] = []byte{}
							}
							s.long[cm.n] = append(s.long[cm.n], chunk...)
						}
					}
					r.Logf("%s #%d long slot%d id=%d param %d -> %q", name, j, cm.slot, s.id, cm.n, s.long[cm.n])
				case "reset":
					if s == nil {
						continue
					}
					err := c.ResetStmt(s.id)
					r.Logf("%s #%d reset slot%d id=%d -> %s", name, j, cm.slot, s.id, errText(err))
					if s.known {
						if err != nil {
							r.Failf("C16-wrong-outcome", "%s: reset of open statement %d failed: %v", name, s.id, err)
						}
						for x := range s.long {
							s.long[x] = nil
						}
					} else if err == nil {
						r.Failf("C16-closed-statement-executed", "%s: reset of closed statement %d answered OK", name, s.id)
					}
				case "close":
					if s == nil {
						continue
					}
					c.CloseStmt(s.id)
					s.known = false
					r.Logf("%s #%d close slot%d id=%d", name, j, cm.slot, s.id)
				case "execute-unknown":
					_, err := c.ExecuteRaw(mycli.BuildExecute(uint32(900+j), nil, false))
					r.Logf("%s #%d execute unknown id -> %s", name, j, errText(err))
					if err == nil {
						r.Failf("C16-closed-statement-executed", "%s: execute of unknown statement id %d answered OK", name, 900+j)
					}
				case "reset-unknown":
					err := c.ResetStmt(uint32(900 + j))
					r.Logf("%s #%d reset unknown id -> %s", name, j, errText(err))
					if err == nil {
						r.Failf("C16-closed-statement-executed", "%s: reset of unknown statement id answered OK", name)
					}
				case "long-unknown":
					// COM_STMT_SEND_LONG_DATA never has a reply, whatever the id
					c.SendLongData(uint32(900+j), 0, []byte("zz"))
					r.Probe("long-data-for-unknown-statement")
					r.Logf("%s #%d long data for unknown id", name, j)
				case "ping":
					if err := c.Ping(); err != nil && !c.Dead {
						r.Failf("C16-replies-out-of-step", "%s: ping answered %v (a reply to an earlier command that has none?)", name, err)
					}
				}
				r.Sched("op", fmt.Sprintf("%d/%s/%d", i, cm.kind, cm.slot))
			}
			if !c.Dead {
				simkit.Pause(r, "idle:"+name)
				if err := c.Ping(); err != nil && !c.Dead {
					r.Failf("C16-replies-out-of-step", "%s: final ping answered %v (a reply to an earlier command that has none?)", name, err)
				}
				c.Quit()
			}
		})
	}
	driveBusy(r, tp, 5000, nil, func() bool { return finished < nClients })
	r.Nontrivial = executions >= 2
	r.State(simkit.Hash(cfg))
	r.Sample = map[string]interface{}{"config": cfg, "executions": executions, "trace_head": head(r.Trace(), 30)}
	w.Shutdown()
}

func classifyC16(r *simkit.Run) {}
