package w1proxy

import (
	"fmt"
	"strings"
	"time"

	"github.com/XiaoMi/Gaea/models"

	"verif/harness/mycli"
	"verif/harness/myproto"
	"verif/harness/mysim"
	"verif/harness/simkit"
)

// C19: backend connections are returned exactly once and never leaked, for any
// command sequence combined with injected backend faults and client disconnects.

func init() {
	worlds["C19"] = &simkit.World{Property: "C19", Run: runC19, Classify: classifyC19, TraceCap: 3000, MinBudget: 250}
}

type c19world struct {
	finding string
}

func runC19(r *simkit.Run) {
	tp := r.Tape
	cw := &c19world{}
	r.World = cw
	nSlices := tp.Range(1, 3)
	keep := tp.Chance(1, 3)
	nClients := tp.Range(1, 3)
	opsPer := tp.Range(4, 12)
	strict := simkit.Params["partition"] == "fault-free"
	// a quarter of the runs have no shard rules: CALL is forwarded there and answered with a chain of result sets
	// that the proxy streams from the backend connection while the session still holds it
	noRules := tp.Chance(1, 4)
	mk := shardedNamespace
	if noRules {
		mk = baseNamespace
	}
	ns := mk("ns1", nSlices, tp.Range(0, 1))
	ns.SetForKeepSession = keep
	ns.MaxSqlExecuteTime = 1000
	for _, sl := range ns.Slices {
		sl.Capacity = tp.Range(1, 2)
		sl.MaxCapacity = sl.Capacity + tp.Range(1, 2)
		if keep && sl.MaxCapacity < nClients {
			sl.MaxCapacity = nClients
		}
	}
	shortTimeout := tp.Chance(1, 5)
	wo := WorldOpts{}
	if shortTimeout {
		wo.SessionTimeoutSec = 5
	}
	w, err := NewWorld(r, map[string]*models.Namespace{"ns1": ns}, wo)
	if err != nil {
		r.Failf("harness", "NewWorld: %v", err)
		return
	}
	w.Cl.Logf = r.Logf
	h := &History{W: w, inFlight: map[int]*OpRec{}}
	w.Cl.OnReceive = func(c *mysim.Conn, st *mysim.Stmt) { st.Ev = h.tick() }
	panics := []string{}
	simkit.LogHook = func(level, msg string) {
		if strings.Contains(msg, "panic") || strings.Contains(msg, "Panic") {
			panics = append(panics, msg)
		}
	}
	// fault plan: each enabled kind fires on a matching statement with probability 1/den
	kinds := []string{"backend-drops-idle-connections", "cut-in-result-chain", "slow-begin", "exec-error", "begin-error", "commit-error", "rollback-error", "autocommit-error", "set-error", "use-error", "drop-conn", "slow", "reply-lost", "connect-refused"}
	enabled := map[string]bool{}
	if !strict {
		n := tp.Range(1, 3)
		for i := 0; i < n; i++ {
			enabled[kinds[tp.Choose(len(kinds))]] = true
		}
	}
	den := []int{3, 5, 8}[tp.Choose(3)]
	faultsOn := true
	lastFault := time.Duration(0)
	w.Cl.Exec = func(c *mysim.Conn, st *mysim.Stmt) *mysim.Reply {
		if !strings.HasPrefix(strings.ToLower(strings.TrimSpace(st.SQL)), "call ") {
			return nil
		}
		col := []myproto.Column{{Name: "v", Type: myproto.TLongLong, Length: 20}}
		second := &mysim.Reply{Columns: col, Rows: [][][]byte{{[]byte("3")}, {[]byte("4")}, {[]byte("5")}}, Next: &mysim.Reply{}}
		rep := &mysim.Reply{Columns: col, Rows: [][][]byte{{[]byte("1")}, {[]byte("2")}}, Next: second}
		if faultsOn && enabled["cut-in-result-chain"] && tp.Chance(1, den) {
			// the backend connection dies inside the first or the second result set
			tgt := []*mysim.Reply{rep, second}[tp.Choose(2)]
			tgt.CutAfter, tgt.CutReset = 1, tp.Chance(1, 2)
			r.Fault("cut-in-result-chain")
			lastFault = r.Now()
		} else if faultsOn && enabled["slow"] && tp.Chance(1, den) {
			rep.StallNext = 3 * time.Second
			r.Fault("slow")
		}
		return rep
	}
	w.Cl.Fault = func(c *mysim.Conn, st *mysim.Stmt) *mysim.FaultAction {
		if !faultsOn || isNoise(st) {
			return nil
		}
		fire := func(kind string) bool {
			if enabled[kind] && tp.Chance(1, den) {
				r.Fault(kind)
				lastFault = r.Now()
				return true
			}
			return false
		}
		e := func(code uint16, msg string) *mysim.FaultAction {
			return &mysim.FaultAction{Err: &myproto.ServerError{Code: code, State: "HY000", Msg: msg}}
		}
		low := strings.ToLower(st.SQL)
		switch st.Kind {
		case "begin":
			if fire("slow-begin") {
				// longer than the 5s session timeout (when that is configured): the idle
				// timer may close the session while it is acquiring its transaction connection
				return &mysim.FaultAction{Delay: 11 * time.Second}
			}
			if fire("begin-error") {
				return e(1205, "Lock wait timeout exceeded (injected on begin)")
			}
		case "commit":
			if fire("commit-error") {
				return e(1180, "Got error 28 during COMMIT (injected)")
			}
			if fire("reply-lost") {
				return &mysim.FaultAction{AfterExec: true, Reset: true}
			}
		case "rollback":
			if fire("rollback-error") {
				return e(1181, "Got error during ROLLBACK (injected)")
			}
		case "set":
			if strings.Contains(low, "autocommit") {
				if fire("autocommit-error") {
					return e(1105, "injected error on set autocommit")
				}
			} else if fire("set-error") {
				return e(1231, "Variable can't be set (injected)")
			}
		case "use":
			if fire("use-error") {
				return e(1049, "Unknown database (injected)")
			}
		case "select", "insert", "update", "delete", "replace":
			if fire("exec-error") {
				return e(1213, "Deadlock found when trying to get lock (injected)")
			}
			if fire("slow") {
				return &mysim.FaultAction{Delay: 3 * time.Second}
			}
		}
		if st.Cmd == "query" && fire("drop-conn") {
			return &mysim.FaultAction{Drop: true}
		}
		return nil
	}
	// a new backend connection cannot be established: the pool's Get fails for the statement that needed it
	w.Net.DialFault = func(addr string) bool {
		if faultsOn && enabled["connect-refused"] && tp.Chance(1, den) {
			r.Fault("connect-refused")
			lastFault = r.Now()
			r.Logf("dial to %s refused (injected)", addr)
			return true
		}
		return false
	}
	cfg := fmt.Sprintf("slices=%d keepSession=%v clients=%d ops=%d faults=%v 1/%d sessionTimeout5s=%v shardRules=%v", nSlices, keep, nClients, opsPer, keysB(enabled), den, shortTimeout, !noRules)
	r.Logf("config %s", cfg)
	finished := 0
	for i := 0; i < nClients; i++ {
		user := []string{"ns1_rw", "ns1_split"}[tp.Choose(2)]
		cm := &ClientModel{Idx: i, User: user, DB: "db1", AC: true, Charset: "utf8mb4", Vars: map[string]string{}, UVars: map[string]string{}}
		for j := 0; j < opsPer; j++ {
			op := genTxnOp(tp, i, j, nSlices)
			if noRules && tp.Chance(1, 5) {
				m := markerOf(i, j)
				op = Op{Kind: "query", SQL: fmt.Sprintf("call p_multi(%d)", m), Marker: m, Class: "write", Table: "t_plain"}
			}
			if noRules && op.Kind == "use" {
				op.Arg = "db1" // (in db2 the proxy parses every statement and refuses CALL)
			}
			switch tp.Choose(14) {
			case 0:
				op = Op{Kind: "query", SQL: "set @u" + fmt.Sprint(i) + " = " + fmt.Sprint(j), Class: "uservar", Arg: fmt.Sprintf("@u%d=%d", i, j)}
			case 1:
				op = Op{Kind: "query", SQL: "set sql_mode = 'STRICT_TRANS_TABLES'", Class: "set", Arg: "sql_mode=STRICT_TRANS_TABLES"}
			case 2:
				if !strict {
					op = Op{Kind: "drop", Class: "other"}
				}
			}
			cm.Script = append(cm.Script, op)
		}
		h.Clients = append(h.Clients, cm)
		name := fmt.Sprintf("client%d", i)
		pw := map[string]string{"ns1_rw": "pw_rw", "ns1_split": "pw_split"}[user]
		r.Go(name, func() {
			defer func() { finished++ }()
			c, err := w.Connect("", mycli.Options{User: cm.User, Password: pw, DB: "db1"})
			if err != nil {
				r.Logf("%s cannot connect: %v", name, err)
				return
			}
			cm.C = c
			for j, op := range cm.Script {
				if cm.Dead {
					break
				}
				simkit.Pause(r, "idle:"+name)
				rec := h.run(cm, j, op)
				r.Sched("op", fmt.Sprintf("%d/%s", cm.Idx, op.Class))
				r.Logf("%s [%s%s] %q -> %s", name, op.Class, txTag(rec), op.SQL, errText(rec.Err))
				if op.Kind == "drop" {
					r.Fault("client-disconnect")
				}
			}
			simkit.Pause(r, "idle:"+name)
			if !cm.Dead {
				h.run(cm, len(cm.Script), Op{Kind: "quit", Class: "quit"})
			}
		})
	}
	poolCheck := func(when string) {
		nss := w.PoolIdentity()
		for _, v := range nss {
			r.Failf("C19-pool-accounting-broken", "%s: %s", when, v)
			return
		}
	}
	driveBusy(r, tp, 6000, func() {
		if shortTimeout && tp.Chance(1, 8) {
			r.Advance([]time.Duration{time.Second, 6 * time.Second}[tp.Choose(2)])
		}
		if faultsOn && enabled["backend-drops-idle-connections"] && len(h.inFlight) == 0 && tp.Chance(1, 10) {
			// the backend closes the connections nobody is using (wait_timeout, a restart) and some time passes:
			// the pool pings a connection that was idle for more than its ping period before handing it out
			for _, b := range w.Cl.Backends {
				for _, bc := range b.Conns {
					if !bc.Closed {
						bc.Kill()
					}
				}
			}
			r.Fault("backend-drops-idle-connections")
			lastFault = r.Now()
			r.Advance(5 * time.Second)
		}
		if len(r.Enabled()) > 0 || finished == nClients {
			// quiescent with respect to client operations that are not blocked on time
			if len(h.inFlight) == 0 {
				poolCheck("no client operation in flight")
			}
		}
	}, func() bool { return finished < nClients })
	// A panic the proxy recovers from and reports to the client as an error is not, by itself, a violation of this
	// property (connections returned exactly once, nothing left at session end): the clauses below decide, the
	// panic is only counted. (With refused reconnects pooledConnectImpl.GetConnectionID dereferences a nil
	// connection on the unchanged tree; the statement fails with an error and nothing leaks.)
	if len(panics) > 0 {
		r.Probe("proxy-recovered-from-a-panic")
		r.Logf("the proxy logged a panic: %s", clipS(panics[0], 700))
	}
	if finished < nClients {
		r.Probe("run-incomplete-clients-still-blocked")
		for _, o := range h.inFlight {
			r.Logf("STILL IN FLIGHT after drive: client%d [%s] %q since %v (now %v), steps=%d", o.Client, o.Op.Class, o.Op.SQL, o.At, r.Now(), r.Steps)
		}
		for _, p := range r.Enabled() {
			r.Logf("STILL PARKED: %s at %s", p.G, p.Site)
		}
	}
	if !r.Failed() && finished == nClients {
		// all clients are gone; stop injecting, give the proxy 90 simulated seconds
		faultsOn = false
		r.FreeRun()
		for i := 0; i < 9; i++ {
			r.Advance(10 * time.Second)
		}
		poolCheck("90s after the last client left")
		if inUse, detail := w.PoolStats(); inUse != 0 && !r.Failed() {
			r.Failf("C19-connection-leaked", "every client has disconnected and 90 simulated seconds have passed, but %d backend connections are still checked out: %v", inUse, detail)
		}
		if open := w.Cl.OpenTransactions(); len(open) > 0 && !r.Failed() {
			r.Failf("C19-backend-transaction-left-open", "every client has disconnected and 90 simulated seconds have passed, but these backend connections are still inside a transaction or have autocommit off: %v", open)
		}
		// bounded liveness: a fresh client is served
		if !r.Failed() {
			okc := false
			r.Go("fresh", func() {
				c, err := w.Connect("", mycli.Options{User: "ns1_rw", Password: "pw_rw", DB: "db1"})
				if err != nil {
					r.Logf("fresh client cannot connect: %v", err)
					return
				}
				for i := 0; i < nSlices*2+1; i++ {
					if _, err := c.Query(fmt.Sprintf("select * from t_shard where id = %d", 9990000+i)); err != nil {
						r.Logf("fresh client query failed: %v", err)
						return
					}
				}
				okc = true
				c.Quit()
			})
			for i := 0; i < 60 && !okc; i++ {
				r.Settle()
				if en := r.Enabled(); len(en) > 0 {
					r.Release(en[0])
					continue
				}
				r.Advance(time.Second)
			}
			if !okc {
				r.Failf("C19-not-serving-after-faults-stopped", "90 simulated seconds after the last fault a fresh client could not run a query on every slice within 60s")
			}
		}
	}
	nf := 0
	for _, v := range r.Faults {
		nf += v
	}
	r.Nontrivial = nf > 0 || strict
	r.State(simkit.Hash(cfg))
	r.Sample = map[string]interface{}{"config": cfg, "ops": len(h.Ops), "faults": r.Faults, "trace_head": head(r.Trace(), 40)}
	_ = lastFault
	w.Shutdown()
}

func clipS(s string, n int) string {
	if len(s) > n {
		return s[:n] + "..."
	}
	return s
}

func keysB(m map[string]bool) []string {
	var o []string
	for _, k := range []string{"slow-begin", "exec-error", "begin-error", "commit-error", "rollback-error", "autocommit-error", "set-error", "use-error", "drop-conn", "slow", "reply-lost", "connect-refused"} {
		if m[k] {
			o = append(o, k)
		}
	}
	return o
}

func classifyC19(r *simkit.Run) {}
