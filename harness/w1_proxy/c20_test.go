package w1proxy

import (
	"fmt"
	"sort"
	"strings"
	"time"

	"github.com/XiaoMi/Gaea/models"

	"verif/harness/mycli"
	"verif/harness/mysim"
	"verif/harness/simkit"
)

// C20: session settings never leak between clients sharing pooled connections.

func init() {
	worlds["C20"] = &simkit.World{Property: "C20", Run: runC20, Classify: classifyC20, TraceCap: 2500, MinBudget: 250}
}

type c20world struct{ finding string }

type c20client struct {
	cm         *ClientModel
	everVars   map[string]map[string]bool // variable -> every value this client ever asked for
	everNames  map[string]bool
	rejected   bool // a statement of this client failed because the backend refused its SET
	pendingBad bool // the client has asked for a value the backend will refuse and has not been told yet
}

func genC20Op(tp *simkit.Tape, client, idx int) Op {
	m := markerOf(client, idx)
	switch c := tp.Choose(18); {
	case c == 17:
		// a SET with two assignments of which the second is refused by the proxy itself: MySQL applies nothing
		// of a SET statement that fails, so the client's settings are what they were
		v := []string{"+08:00", "-05:00"}[tp.Choose(2)]
		return Op{Kind: "query", SQL: "set time_zone = '" + v + "', global max_connections = 5", Class: "set-refused", Arg: "time_zone=" + v}
	case c == 16:
		// the client idles past the pool's ping period; sometimes the backend drops its idle connections meanwhile
		return Op{Kind: "nap", Class: "nap", Arg: []string{"", "kill"}[tp.Choose(2)]}
	case c <= 5:
		return Op{Kind: "query", SQL: fmt.Sprintf("select * from t_plain where id = %d", m), Marker: m, Class: "read", Table: "t_plain"}
	case c == 6:
		return Op{Kind: "query", SQL: fmt.Sprintf("update t_plain set a = 1 where id = %d", m), Marker: m, Class: "write", Table: "t_plain"}
	case c == 7:
		cs := []string{"utf8mb4", "gbk", "latin1", "utf8", "utf8mb4", "utf8mb4"}[tp.Choose(6)]
		if tp.Chance(1, 2) {
			// an explicit collation of that character set (sometimes its default one)
			cols := map[string][]string{"utf8mb4": {"utf8mb4_bin", "utf8mb4_unicode_ci", "utf8mb4_general_ci"}, "gbk": {"gbk_bin", "gbk_chinese_ci"},
				"latin1": {"latin1_bin", "latin1_general_ci", "latin1_swedish_ci"}, "utf8": {"utf8_bin", "utf8_unicode_ci", "utf8_general_ci"}}[cs]
			col := cols[tp.Choose(len(cols))]
			return Op{Kind: "query", SQL: "set names " + cs + " collate " + col, Class: "names", Arg: cs + "/" + col}
		}
		return Op{Kind: "query", SQL: "set names " + cs, Class: "names", Arg: cs}
	case c == 8:
		v := []string{"STRICT_TRANS_TABLES", "NO_BACKSLASH_ESCAPES", "ANSI_QUOTES,STRICT_ALL_TABLES", "ONLY_FULL_GROUP_BY"}[tp.Choose(4)]
		return Op{Kind: "query", SQL: "set sql_mode = '" + v + "'", Class: "set", Arg: "sql_mode=" + v}
	case c == 9:
		v := []string{"+08:00", "+00:00", "-05:00"}[tp.Choose(3)]
		return Op{Kind: "query", SQL: "set time_zone = '" + v + "'", Class: "set", Arg: "time_zone=" + v}
	case c == 10:
		v := []string{"1", "0"}[tp.Choose(2)]
		return Op{Kind: "query", SQL: "set sql_safe_updates = " + v, Class: "set", Arg: "sql_safe_updates=" + v}
	case c == 11:
		v := fmt.Sprint([]int{10, 100, 5000}[tp.Choose(3)])
		return Op{Kind: "query", SQL: "set session group_concat_max_len = " + v, Class: "set", Arg: "group_concat_max_len=" + v}
	case c == 12:
		name := []string{"sql_mode", "time_zone", "sql_safe_updates"}[tp.Choose(3)]
		return Op{Kind: "query", SQL: "set " + name + " = default", Class: "set", Arg: name + "=DEFAULT"}
	case c == 13:
		name := fmt.Sprintf("@u%d", tp.Choose(2))
		v := fmt.Sprint(tp.Range(1, 9))
		return Op{Kind: "query", SQL: "set " + name + " = " + v, Class: "uservar", Arg: name + "=" + v}
	case c == 14:
		name := fmt.Sprintf("@u%d", tp.Choose(2))
		return Op{Kind: "query", SQL: "set " + name + " = NULL", Class: "uservar", Arg: name + "=NULL"}
	default:
		// a value the backend refuses (the whole SET statement is atomic there)
		return Op{Kind: "query", SQL: "set sql_mode = 'NOT_A_MODE'", Class: "set", Arg: "sql_mode=NOT_A_MODE"}
	}
}

func runC20(r *simkit.Run) {
	tp := r.Tape
	cw := &c20world{}
	r.World = cw
	nClients := tp.Range(2, 4)
	opsPer := tp.Range(5, 14)
	withBad := tp.Chance(1, 2)
	if simkit.Params["partition"] == "no-rejected-set" {
		withBad = false
	}
	ns := baseNamespace("ns1", 1, 0)
	ns.Slices[0].Capacity = 1
	ns.Slices[0].MaxCapacity = tp.Range(1, 2)
	w, err := NewWorld(r, map[string]*models.Namespace{"ns1": ns}, WorldOpts{})
	if err != nil {
		r.Failf("harness", "NewWorld: %v", err)
		return
	}
	w.Cl.Logf = r.Logf
	r.SetSiteDensity(0, 0)
	h := &History{W: w, inFlight: map[int]*OpRec{}}
	w.Cl.OnReceive = func(c *mysim.Conn, st *mysim.Stmt) { st.Ev = h.tick() }
	cfg := fmt.Sprintf("clients=%d ops=%d maxcap=%d rejectedSets=%v", nClients, opsPer, ns.Slices[0].MaxCapacity, withBad)
	r.Logf("config %s", cfg)
	finished := 0
	shared := 0
	killed := 0
	lastUser := map[uint32]int{} // backend connection -> last client that ran a statement on it
	for i := 0; i < nClients; i++ {
		// the collation named in the client's handshake is its first request
		login := [][3]interface{}{{byte(45), "utf8mb4", "utf8mb4_general_ci"}, {byte(45), "utf8mb4", "utf8mb4_general_ci"}, {byte(46), "utf8mb4", "utf8mb4_bin"}, {byte(224), "utf8mb4", "utf8mb4_unicode_ci"}, {byte(33), "utf8", "utf8_general_ci"}, {byte(83), "utf8", "utf8_bin"}}[tp.Choose(6)]
		cm := &ClientModel{Idx: i, User: "ns1_rw", DB: "db1", AC: true, Charset: login[1].(string), Coll: login[2].(string), Vars: map[string]string{}, UVars: map[string]string{}}
		h.Clients = append(h.Clients, cm)
		cc := &c20client{cm: cm, everVars: map[string]map[string]bool{}, everNames: map[string]bool{cm.Charset + "/" + cm.Coll: true}}
		for j := 0; j < opsPer; j++ {
			op := genC20Op(tp, i, j)
			if !withBad && strings.Contains(op.SQL, "NOT_A_MODE") {
				op = Op{Kind: "query", SQL: fmt.Sprintf("select * from t_plain where id = %d", markerOf(i, j)), Marker: markerOf(i, j), Class: "read"}
			}
			cm.Script = append(cm.Script, op)
		}
		name := fmt.Sprintf("client%d", i)
		r.Go(name, func() {
			defer func() { finished++ }()
			c, err := w.Connect("", mycli.Options{User: "ns1_rw", Password: "pw_rw", DB: "db1", Charset: login[0].(byte)})
			if err != nil {
				r.Failf("harness", "%s cannot connect: %v", name, err)
				return
			}
			cm.C = c
			for j, op := range cm.Script {
				if cm.Dead {
					break
				}
				simkit.Pause(r, "idle:"+name)
				if op.Kind == "nap" {
					if op.Arg == "kill" && h.inFlight != nil && len(h.inFlight) == 0 {
						for _, b := range w.Cl.Backends {
							for _, bc := range b.Conns {
								if !bc.Closed {
									bc.Kill()
									killed++
								}
							}
						}
						r.Fault("backend-drops-idle-connections")
					}
					simkit.Sleep(5 * time.Second)
					r.Sched("op", fmt.Sprintf("%d/nap%s", i, op.Arg))
					continue
				}
				rec := h.run(cm, j, op)
				r.Sched("op", fmt.Sprintf("%d/%s", i, op.Class))
				r.Logf("%s [%s] %q -> %s", name, op.Class, op.SQL, errText(rec.Err))
				if rec.Err == nil {
					switch op.Class {
					case "set", "uservar":
						kv := strings.SplitN(op.Arg, "=", 2)
						if cc.everVars[kv[0]] == nil {
							cc.everVars[kv[0]] = map[string]bool{}
						}
						cc.everVars[kv[0]][kv[1]] = true
						if kv[1] == "NOT_A_MODE" {
							cc.pendingBad = true
						}
					case "names":
						cc.everNames[cm.Charset+"/"+cm.Coll] = true
					}
				}
				if rec.Err != nil && op.Marker != 0 {
					if se, ok := rec.Err.(interface{ Error() string }); ok && (strings.Contains(se.Error(), "1231") || strings.Contains(se.Error(), "can't be set")) {
						// the client is told (late) that its SET was refused: from now on only the
						// no-leak clause applies to it (it cannot know which settings survived)
						cc.rejected = true
						cc.pendingBad = false
						r.Probe("client-told-about-rejected-set")
						delete(cm.Vars, "sql_mode")
					}
					continue
				}
				if op.Marker == 0 {
					continue
				}
				for _, st := range h.stmtsOf(rec) {
					if lu, ok := lastUser[st.ConnID]; ok && lu != i {
						shared++
					}
					lastUser[st.ConnID] = i
					b := st.Before
					// (1) nothing that only another client asked for
					for v, x := range b.Vars {
						if !cc.everVars[v][x] {
							r.Failf("C20-foreign-setting-on-connection", "%s statement %q ran on backend connection %d whose %s is %q; this client never asked for that value (its requests: %v)", name, op.SQL, st.ConnID, v, x, keysOf(cc.everVars[v]))
						}
					}
					for v, x := range b.UserVars {
						if !cc.everVars[v][x] {
							r.Failf("C20-foreign-setting-on-connection", "%s statement %q ran on backend connection %d where user variable %s is %q; this client never set that (its requests: %v)", name, op.SQL, st.ConnID, v, x, keysOf(cc.everVars[v]))
						}
					}
					if !cc.everNames[b.Charset+"/"+b.Collation] {
						r.Failf("C20-foreign-setting-on-connection", "%s statement %q ran on backend connection %d with character set / collation %s/%s; this client asked for %v", name, op.SQL, st.ConnID, b.Charset, b.Collation, keysOf(cc.everNames))
					}
					// (2) exactly the client's current settings, as long as none of its SETs was refused
					if cc.rejected || cc.pendingBad {
						continue
					}
					if b.Charset != cm.Charset || b.Collation != cm.Coll {
						r.Failf("C20-own-setting-missing", "%s asked for character set / collation %s/%s but %q ran on backend connection %d with %s/%s", name, cm.Charset, cm.Coll, op.SQL, st.ConnID, b.Charset, b.Collation)
					}
					for v, x := range cm.Vars {
						if b.Vars[v] != x {
							r.Failf("C20-own-setting-missing", "%s has %s = %q but %q ran on backend connection %d where it is %q", name, v, x, op.SQL, st.ConnID, b.Vars[v])
						}
					}
					for v, x := range b.Vars {
						if _, ok := cm.Vars[v]; !ok {
							r.Failf("C20-own-setting-missing", "%s has %s at its default but %q ran on backend connection %d where it is %q", name, v, op.SQL, st.ConnID, x)
						}
					}
					for v, x := range cm.UVars {
						if b.UserVars[v] != x {
							r.Failf("C20-own-setting-missing", "%s has user variable %s = %q but %q ran on backend connection %d where it is %q", name, v, x, op.SQL, st.ConnID, b.UserVars[v])
						}
					}
					for v, x := range b.UserVars {
						if _, ok := cm.UVars[v]; !ok {
							r.Failf("C20-own-setting-missing", "%s has no user variable %s but %q ran on backend connection %d where it is %q", name, v, op.SQL, st.ConnID, x)
						}
					}
				}
			}
			simkit.Pause(r, "idle:"+name)
			c.Quit()
		})
	}
	driveBusy(r, tp, 5000, nil, func() bool { return finished < nClients })
	r.Nontrivial = shared > 0
	if shared > 0 {
		r.Probe("connection-reused-by-another-client")
	}
	r.State(simkit.Hash(cfg))
	r.Sample = map[string]interface{}{"config": cfg, "connection_handovers": shared, "backend_connections_killed": killed, "trace_head": head(r.Trace(), 30)}
	w.Shutdown()
}

func keysOf(m map[string]bool) []string {
	var o []string
	for k := range m {
		o = append(o, k)
	}
	sort.Strings(o)
	return o
}

func classifyC20(r *simkit.Run) {
	if w, ok := r.World.(*c20world); ok && r.Viol != nil {
		r.Viol.Finding = w.finding
	}
}
