package w1proxy

import (
	"errors"
	"fmt"
	"sort"
	"strconv"
	"strings"

	"github.com/XiaoMi/Gaea/models"
	"github.com/XiaoMi/Gaea/parser"
	"github.com/XiaoMi/Gaea/parser/ast"

	"verif/harness/mycli"
	"verif/harness/myproto"
	"verif/harness/mysim"
	"verif/harness/simkit"
	"verif/harness/sqlmini"
)

// Data-path world (C01-C06): the real proxy between a client and simulated backends that hold rows. Every
// backend executes the statements it receives with harness/sqlmini on its own table store; a reference
// database executes the client's original statements with the same evaluator on one logical store.

func init() {
	for _, p := range []string{"C01", "C02", "C03", "C04", "C05", "C06"} {
		p := p
		worlds[p] = &simkit.World{Property: p, Run: func(r *simkit.Run) { runData(r, p) }, Classify: classifyData, TraceCap: 3000, MinBudget: 150}
	}
}

var dataCols = []string{"id", "g", "v", "name", "ct"}
var dataKinds = []byte{'i', 'i', 'i', 's', 's'}

// dataRule describes the sharded table of a run.
type dataRule struct {
	typ      string
	db       string // logical database
	table    string
	key      string // sharding column
	keys     []sqlmini.Value
	mycat    bool
	shard    *models.Shard
	nSlices  int
	perSlice int
	// inRange, when set, tells independently of the router whether a key lies inside the configured ranges / periods
	inRange func(v sqlmini.Value) bool
}

func ints(xs ...int64) []sqlmini.Value {
	var out []sqlmini.Value
	for _, x := range xs {
		out = append(out, sqlmini.Int(x))
	}
	return out
}
func strs(xs ...string) []sqlmini.Value {
	var out []sqlmini.Value
	for _, x := range xs {
		out = append(out, sqlmini.Str(x))
	}
	return out
}

func sliceNames(n int) []string {
	var s []string
	for i := 0; i < n; i++ {
		s = append(s, fmt.Sprintf("slice-%d", i))
	}
	return s
}

func locs(n, per int) []int {
	var l []int
	for i := 0; i < n; i++ {
		l = append(l, per)
	}
	return l
}

// renameSlices gives the i-th configured slice the i-th name, everywhere the configuration names slices.
func renameSlices(ns *models.Namespace, names []string) {
	m := map[string]string{}
	for i, sl := range ns.Slices {
		m[sl.Name] = names[i]
		sl.Name = names[i]
	}
	if n, ok := m[ns.DefaultSlice]; ok {
		ns.DefaultSlice = n
	}
	for _, sh := range ns.ShardRules {
		for i, s := range sh.Slices {
			if n, ok := m[s]; ok {
				sh.Slices[i] = n
			}
		}
	}
}

// drawRule picks the rule type and layout of the run's sharded table with a boundary-rich key universe.
func drawRule(tp *simkit.Tape) *dataRule {
	nS := tp.Range(1, 3)
	per := tp.Range(1, 3)
	total := nS * per
	typ := []string{"hash", "mod", "range", "date_year", "date_month", "date_day", "mycat_mod", "mycat_long", "mycat_murmur", "mycat_string", "mycat_padding_mod"}[tp.Choose(11)]
	if force := simkit.Params["rule"]; force != "" {
		typ = force
	}
	d := &dataRule{typ: typ, db: "db1", table: "t_" + typ, key: "id", nSlices: nS, perSlice: per}
	sh := &models.Shard{DB: "db1", Table: d.table, Type: typ, Key: "id", Slices: sliceNames(nS), Locations: locs(nS, per)}
	var small []int64
	for i := int64(0); i < int64(2*total+2); i++ {
		small = append(small, i)
	}
	switch typ {
	case "hash", "mod":
		d.keys = ints(append(small, 15, 16, 17, 255, 256, 1000003, 2147483647, 2147483648, 4294967296)...)
	case "range":
		lim := int64(100)
		sh.TableRowLimit = int(lim)
		top := lim * int64(total)
		d.keys = ints(0, 1, lim-1, lim, lim+1, 2*lim-1, 2*lim, top/2, top-1, top, top+1, top+lim, 50, 150, 250, 5)
		d.inRange = func(v sqlmini.Value) bool { return !v.Null && !v.IsS && v.I >= 0 && v.I < top }
	case "date_year":
		d.key, sh.Key, sh.Locations = "ct", "ct", nil
		ranges := []string{"2014-2015", "2017-2018", "2020-2020"}[:nS]
		sh.DateRange = ranges
		d.keys = strs("2013-12-31", "2014-01-01", "2014-06-15", "2014-12-31", "2015-01-01", "2015-12-31", "2016-01-01", "2016-07-01", "2017-01-01", "2017-06-01", "2018-12-31", "2019-01-01", "2020-01-01", "2020-02-29", "2020-12-31", "2021-01-01",
			"2015-01-15", "2017-01-02", "2018-01-31", "2014-01-03 10:00:00", "2017-12-31 23:59:59")
	case "date_month":
		d.key, sh.Key, sh.Locations = "ct", "ct", nil
		ranges := []string{"201405-201406", "201408-201409", "201412-201501"}[:nS]
		sh.DateRange = ranges
		d.keys = strs("2014-04-30", "2014-05-01", "2014-05-31", "2014-06-01", "2014-06-30", "2014-07-01", "2014-07-15", "2014-08-01", "2014-09-30", "2014-10-01", "2014-12-01", "2014-12-31", "2015-01-01", "2015-01-31", "2015-02-01", "2014-05-15", "2014-06-02", "2014-08-15 12:30:00", "2014-05-31 23:59:59")
	case "date_day":
		d.key, sh.Key, sh.Locations = "ct", "ct", nil
		ranges := []string{"20140901-20140903", "20140905-20140906", "20141231-20150101"}[:nS]
		sh.DateRange = ranges
		d.keys = strs("2014-08-31", "2014-09-01", "2014-09-02", "2014-09-03", "2014-09-04", "2014-09-05", "2014-09-06", "2014-09-07", "2014-12-30", "2014-12-31", "2015-01-01", "2015-01-02", "2014-09-02 08:00:00", "2014-09-03 23:59:59")
	case "mycat_mod", "mycat_long", "mycat_murmur", "mycat_string", "mycat_padding_mod":
		if typ == "mycat_padding_mod" && total < 2 {
			// the rule takes the key modulo the number of tables and refuses fewer than two
			per, total = 2, 2*nS
			d.perSlice = per
			sh.Locations = locs(nS, per)
		}
		d.mycat = true
		d.db = "db_mycat"
		sh.DB = "db_mycat"
		var dbs []string
		for i := 0; i < total; i++ {
			dbs = append(dbs, fmt.Sprintf("db_mycat_%d", i))
		}
		sh.Databases = dbs
		switch typ {
		case "mycat_string":
			// a string key (column ct), hashed over a slice of its characters, then placed like mycat_long
			d.key, sh.Key = "ct", "ct"
			sh.PartitionCount, sh.PartitionLength = strconv.Itoa(total), strconv.Itoa(1024/total)
			if 1024%total != 0 {
				sh.PartitionCount = fmt.Sprintf("%d,1", total-1)
				sh.PartitionLength = fmt.Sprintf("%d,%d", 1024/total, 1024-(total-1)*(1024/total))
			}
			sh.HashSlice = []string{"0:2", "2", ":", "-2:", "1:3", ":-1", "0:0"}[tp.Choose(7)]
			d.keys = strs("", "a", "ab", "abc", "abd", "abcd", "b", "ba", "user001", "user002", "user010", "zz", "0", "00", "12", "21", "a b", "2014-05-01", "中文", "中文字", "q")
		case "mycat_padding_mod":
			sh.PadFrom = []string{"0", "1"}[tp.Choose(2)]
			switch tp.Choose(3) {
			case 0:
				sh.PadLength, sh.ModBegin, sh.ModEnd = "18", "10", "16" // the defaults of the rule
			case 1:
				sh.PadLength, sh.ModBegin, sh.ModEnd = "6", "0", "3"
			default:
				sh.PadLength, sh.ModBegin, sh.ModEnd = "4", "2", "4"
			}
			d.keys = ints(append(small, 9, 10, 11, 99, 100, 101, 999, 1000, 1001, 1234, 4321, 12345, 99999, 100000, 123456, 1234567, 98765432, 2147483647, 123456789012345678)...)
		case "mycat_long":
			sh.PartitionCount, sh.PartitionLength = strconv.Itoa(total), strconv.Itoa(1024/total)
			if 1024%total != 0 {
				// partition lengths must sum to 1024
				sh.PartitionCount = fmt.Sprintf("%d,1", total-1)
				sh.PartitionLength = fmt.Sprintf("%d,%d", 1024/total, 1024-(total-1)*(1024/total))
				if total == 1 {
					sh.PartitionCount, sh.PartitionLength = "1", "1024"
				}
			}
			pl := int64(1024 / total)
			d.keys = ints(append(small, pl-1, pl, pl+1, 2*pl, 1023, 1024, 1025, 2047, 2048, 5000)...)
		case "mycat_murmur":
			sh.Seed, sh.VirtualBucketTimes = "0", "160"
			d.keys = ints(append(small, 100, 1000, 12345, 99999, 2147483647)...)
		default:
			d.keys = ints(append(small, 15, 16, 17, 255, 256, 1000003, 2147483647)...)
		}
	}
	if len(sh.DateRange) > 0 {
		// periods as numbers of the key's leading digits: 2014 / 201405 / 20140901
		digits := map[string]int{"date_year": 4, "date_month": 6, "date_day": 8}[typ]
		var spans [][2]int
		for _, r := range sh.DateRange {
			lo, hi, _ := strings.Cut(r, "-")
			a, _ := strconv.Atoi(lo)
			b, _ := strconv.Atoi(hi)
			spans = append(spans, [2]int{a, b})
		}
		d.inRange = func(v sqlmini.Value) bool {
			if v.Null || !v.IsS || len(v.S) < 10 {
				return false
			}
			n, err := strconv.Atoi(strings.ReplaceAll(v.S[:10], "-", "")[:digits])
			if err != nil {
				return false
			}
			for _, sp := range spans {
				if n >= sp[0] && n <= sp[1] {
					return true
				}
			}
			return false
		}
	}
	d.shard = sh
	return d
}

// dataWorld is the state of one run.
type dataWorld struct {
	r      *simkit.Run
	prop   string
	w      *World
	rule   *dataRule
	stores map[string]*sqlmini.Store // backend address -> physical tables
	ref    *sqlmini.Store            // logical tables
	c      *mycli.Client
	nextID int64
	global string // global table name ("" = none)
	gdb    string
	// received: per statement in flight, the physical tables that got a data statement: "addr|db.table" -> count
	received map[string]int
	recvSQL  []string
	inFlight bool
	logical  map[string]bool // logical sharded/global table names that must never reach a backend under their logical db
	other    int             // violations of other properties seen (ignored by this check)
	stop     bool            // such a violation may have made shards and reference diverge: the run ends quietly
	finding  string          // known-finding predicate the violation about to be reported satisfies
	// breakInsertOn: backend address whose connection is reset when the next INSERT arrives there (one shot)
	breakInsertOn string
	faulted       bool
	brokenRewrite string          // a backend could not resolve a column reference of a statement the proxy sent it (last occurrence)
	child         string          // linked child table of the sharded table ("" = none)
	childKey      string          // its sharding column
	sessDB        string          // the session's current database
	gcopies       []string        // database names of the global table's copies (mycat style), nil = one copy per slice
	globalCopySet map[string]bool // "addr|db.table" of every copy of the global table
}

func classifyData(r *simkit.Run) {
	if d, ok := r.World.(*dataWorld); ok && r.Viol != nil {
		r.Viol.Finding = d.finding
	}
}

func (d *dataWorld) useDB(db string) {
	if d.sessDB == db {
		return
	}
	if err := d.c.UseDB(db); err != nil {
		d.fail("harness", "use %s: %v", db, err)
		return
	}
	d.sessDB = db
	d.r.Logf("use %s", db)
}

// fail reports a violation of clause if it belongs to the property under check; other properties' clauses are logged only.
func (d *dataWorld) fail(clause, format string, a ...interface{}) bool {
	if strings.HasPrefix(clause, d.prop) || clause == "harness" {
		d.r.Failf(clause, format, a...)
		return true
	}
	d.other++
	d.stop = true
	d.r.Logf("(not under check here) %s: %s", clause, fmt.Sprintf(format, a...))
	return false
}

func (d *dataWorld) store(addr string) *sqlmini.Store {
	s := d.stores[addr]
	if s == nil {
		s = sqlmini.NewStore()
		s.NoUnique = true // duplicate sharding values (and with them duplicate ids) are part of the workload
		d.stores[addr] = s
	}
	return s
}

// ensure creates the table a statement names on first use (physical layouts differ per rule type; poison decoys are created explicitly).
func ensure(s *sqlmini.Store, db, table string) *sqlmini.Table {
	if t := s.Get(db, table); t != nil {
		return t
	}
	t := s.Create(db, table, dataCols)
	t.Kinds = dataKinds
	return t
}

func stmtTables(node ast.StmtNode) []*ast.TableName {
	var out []*ast.TableName
	v := &tblCollector{}
	node.Accept(v)
	out = v.t
	return out
}

type tblCollector struct{ t []*ast.TableName }

func (v *tblCollector) Enter(n ast.Node) (ast.Node, bool) {
	if t, ok := n.(*ast.TableName); ok {
		v.t = append(v.t, t)
	}
	return n, false
}
func (v *tblCollector) Leave(n ast.Node) (ast.Node, bool) { return n, true }

func kindOf(res *sqlmini.Result, i int, node ast.StmtNode) byte {
	// integers for id/g/v and COUNT, decimal for SUM, else by the values
	name := strings.ToLower(res.Cols[i])
	switch {
	case strings.HasPrefix(name, "count("):
		return 'i'
	case strings.HasPrefix(name, "sum("):
		return 'd'
	}
	for _, row := range res.Rows {
		if !row[i].Null {
			if row[i].IsS {
				return 's'
			}
			return 'i'
		}
	}
	base := name
	if j := strings.LastIndexAny(base, ".(`"); j >= 0 {
		base = strings.Trim(base[j+1:], ")` ")
	}
	for k, c := range dataCols {
		if c == base {
			return dataKinds[k]
		}
	}
	return 's'
}

func (d *dataWorld) exec(c *mysim.Conn, st *mysim.Stmt) *mysim.Reply {
	switch st.Kind {
	case "select", "insert", "replace", "update", "delete":
	default:
		return nil
	}
	if isNoise(st) {
		return nil
	}
	node, err := parser.ParseSQL(st.SQL)
	if err != nil {
		return &mysim.Reply{Err: &myproto.ServerError{Code: 1064, State: "42000", Msg: "syntax error at the backend: " + err.Error()}}
	}
	s := d.store(c.B.Addr)
	for _, tn := range stmtTables(node) {
		db := tn.Schema.O
		if db == "" {
			db = c.DB
		}
		key := c.B.Addr + "|" + sqlmini.Key(db, tn.Name.O)
		if d.global != "" && strings.EqualFold(tn.Name.O, d.global) && d.globalCopySet != nil && !d.globalCopySet[key] {
			// the global table has no copy here: a real backend has no such table (creating it on demand would turn the error into silently missing rows)
			return &mysim.Reply{Err: &myproto.ServerError{Code: 1146, State: "42S02", Msg: fmt.Sprintf("Table '%s.%s' doesn't exist", db, tn.Name.O)}}
		}
		ensure(s, db, tn.Name.O)
		if d.inFlight {
			d.received[key]++
		}
		if d.logical[sqlmini.Key(db, tn.Name.O)] {
			d.fail("C06-logical-table-reached-a-backend", "backend %s received %q: it names the logical sharded table %s.%s, which exists only as physical sub-tables", c.B.Addr, st.SQL, db, tn.Name.O)
		}
	}
	if d.inFlight {
		d.recvSQL = append(d.recvSQL, c.B.Addr+": "+st.SQL)
	}
	res, err := s.ExecNode(node, c.DB)
	if err != nil {
		if strings.Contains(err.Error(), "in column reference") {
			// the statement as the proxy wrote it names a table the backend cannot resolve (MySQL: error 1054)
			d.brokenRewrite = c.B.Addr + " received " + strconv.Quote(st.SQL) + ": " + err.Error()
		}
		code := uint16(1105)
		if strings.Contains(err.Error(), "Duplicate entry") {
			code = 1062
		}
		return &mysim.Reply{Err: &myproto.ServerError{Code: code, State: "HY000", Msg: err.Error()}}
	}
	if !res.IsQuery {
		return &mysim.Reply{Affected: res.Affected}
	}
	rep := &mysim.Reply{Columns: []myproto.Column{}}
	for i, name := range res.Cols {
		col := myproto.Column{Schema: c.DB, Name: name, OrgName: name, Charset: 45, Length: 255, Type: myproto.TVarString}
		switch kindOf(res, i, node) {
		case 'i':
			col.Type, col.Charset, col.Flags = myproto.TLongLong, 63, myproto.FBinary
		case 'd':
			col.Type, col.Charset, col.Flags = myproto.TNewDecimal, 63, myproto.FBinary
		}
		rep.Columns = append(rep.Columns, col)
	}
	for _, row := range res.Rows {
		var tr [][]byte
		for _, v := range row {
			tr = append(tr, v.Text())
		}
		rep.Rows = append(rep.Rows, tr)
	}
	return rep
}

// physRows lists every row of every physical table of a logical table: key "addr|db.table" -> rows.
func (d *dataWorld) physTables(logicalDB, table string) map[string]*sqlmini.Table {
	out := map[string]*sqlmini.Table{}
	for addr, s := range d.stores {
		for k, t := range s.Tables {
			db, name, _ := strings.Cut(k, ".")
			if d.isPhysicalOf(db, name, logicalDB, table) {
				out[addr+"|"+k] = t
			}
		}
	}
	return out
}

// isPhysicalOf: kingshard rules keep the database and suffix the table; mycat rules keep the table and number the database.
func (d *dataWorld) isPhysicalOf(db, name, logicalDB, table string) bool {
	table = strings.ToLower(table)
	if strings.HasPrefix(logicalDB, "db_mycat") {
		return name == table && strings.HasPrefix(db, "db_mycat_")
	}
	if table == d.global {
		return name == table
	}
	if !strings.HasPrefix(name, table+"_") || db != strings.ToLower(d.physDB(logicalDB)) {
		return false
	}
	for _, ch := range name[len(table)+1:] {
		if ch < '0' || ch > '9' {
			return false // e.g. the linked child table t_x_child_0001 is not a sub-table of t_x
		}
	}
	return len(name) > len(table)+1
}

func (d *dataWorld) physDB(logical string) string {
	if p, ok := d.w.NS["ns1"].DefaultPhyDBS[logical]; ok {
		return p
	}
	return logical
}

func rowKey(row []sqlmini.Value) string {
	var s []string
	for _, v := range row {
		s = append(s, v.String())
	}
	return strings.Join(s, ",")
}

func multiset(rows [][]sqlmini.Value) []string {
	var out []string
	for _, r := range rows {
		out = append(out, rowKey(r))
	}
	sort.Strings(out)
	return out
}

func sameStrings(a, b []string) bool {
	if len(a) != len(b) {
		return false
	}
	for i := range a {
		if a[i] != b[i] {
			return false
		}
	}
	return true
}

// opResult is what the client saw plus what the backends received for one statement.
type opResult struct {
	err      error
	refused  bool // answered with an error packet
	res      *mycli.Result
	received map[string]int
	recvSQL  []string
}

func (d *dataWorld) run(sql string) *opResult {
	d.received, d.recvSQL, d.inFlight = map[string]int{}, nil, true
	res, err := d.c.Query(sql)
	d.inFlight = false
	o := &opResult{err: err, received: d.received, recvSQL: d.recvSQL}
	if err != nil {
		var se *myproto.ServerError
		o.refused = errors.As(err, &se)
		return o
	}
	if len(res) == 1 {
		o.res = res[0]
	}
	return o
}

func lit(v sqlmini.Value) string {
	switch {
	case v.Null:
		return "NULL"
	case v.IsS:
		return "'" + strings.ReplaceAll(v.S, "'", "''") + "'"
	}
	return strconv.FormatInt(v.I, 10)
}

var dataNames = []string{"a", "b", "a+", "+b", "NULL", "a b", "x,y", "", "zz", "a|b", "9", "100", "10"}

// newRow draws a row for a key of the sharded table.
func (d *dataWorld) newRow(tp *simkit.Tape, key sqlmini.Value) []sqlmini.Value {
	d.nextID++
	row := []sqlmini.Value{sqlmini.Int(d.nextID), sqlmini.Int(int64(tp.Choose(4))), sqlmini.Int(int64(tp.Choose(40) - 10)), sqlmini.Str(dataNames[tp.Choose(len(dataNames))]), sqlmini.Str("2014-05-0" + strconv.Itoa(1+tp.Choose(9)))}
	if tp.Chance(1, 6) {
		row[1] = sqlmini.Null()
	}
	if tp.Chance(1, 6) {
		row[2] = sqlmini.Null()
	}
	if tp.Chance(1, 8) {
		row[3] = sqlmini.Null()
	}
	if d.rule.key == "id" {
		row[0] = key
	} else {
		row[4] = key
	}
	return row
}

func insertSQL(table string, rows [][]sqlmini.Value, replace bool) string {
	var vs []string
	for _, row := range rows {
		var c []string
		for _, v := range row {
			c = append(c, lit(v))
		}
		vs = append(vs, "("+strings.Join(c, ", ")+")")
	}
	verb := "insert"
	if replace {
		verb = "replace"
	}
	return fmt.Sprintf("%s into %s (%s) values %s", verb, table, strings.Join(dataCols, ", "), strings.Join(vs, ", "))
}

// snapshot of all physical tables of the sharded table: "addr|db.table" -> multiset of rows
func (d *dataWorld) snapshot(logicalDB, table string) map[string][]string {
	out := map[string][]string{}
	for k, t := range d.physTables(logicalDB, table) {
		out[k] = multiset(t.Rows)
	}
	return out
}

func flatten(m map[string][]string) []string {
	var out []string
	for _, v := range m {
		out = append(out, v...)
	}
	sort.Strings(out)
	return out
}

// keyIndex is the column index of the sharding key.
func (d *dataWorld) keyIndex() int {
	if d.rule.key == "id" {
		return 0
	}
	return 4
}

func runData(r *simkit.Run, prop string) {
	tp := r.Tape
	rule := drawRule(tp)
	ns := baseNamespace("ns1", rule.nSlices, 0)
	ns.AllowedDBS["db3"] = true // a database without shard rules whose physical name is its own (db2 maps to db2_phy)
	ns.DefaultPhyDBS["db3"] = "db3"
	ns.AllowedDBS["db_mycat"] = true
	ns.DefaultPhyDBS["db_mycat"] = "db_mycat_0"
	ns.ShardRules = []*models.Shard{rule.shard}
	d := &dataWorld{r: r, prop: prop, rule: rule, stores: map[string]*sqlmini.Store{}, ref: sqlmini.NewStore(), logical: map[string]bool{}}
	d.ref.NoUnique = true
	r.World = d
	// a global table next to it
	if tp.Chance(2, 3) {
		d.global, d.gdb = "t_global", rule.db
		g := &models.Shard{DB: rule.db, Table: "t_global", Type: "global", Slices: sliceNames(rule.nSlices), Locations: locs(rule.nSlices, 1)}
		if rule.mycat {
			g.Databases = rule.shard.Databases
			g.Locations = locs(rule.nSlices, rule.perSlice)
			if total := len(g.Databases); total > 1 && tp.Chance(1, 2) {
				// copies on the first m databases only: not every slice holds one
				m := tp.Range(1, total-1)
				g.Databases = g.Databases[:m]
				g.Slices, g.Locations = nil, nil
				for i := 0; i*rule.perSlice < m; i++ {
					g.Slices = append(g.Slices, fmt.Sprintf("slice-%d", i))
					n := rule.perSlice
					if (i+1)*rule.perSlice > m {
						n = m - i*rule.perSlice
					}
					g.Locations = append(g.Locations, n)
				}
			}
			d.gcopies = g.Databases
		}
		ns.ShardRules = append(ns.ShardRules, g)
	}
	if tp.Chance(2, 3) {
		d.child = rule.table + "_child"
		d.childKey = rule.key
		if rule.key == "id" && tp.Chance(1, 2) {
			// the child's sharding column need not have the parent's name: here it is v, and the child's id is an ordinary column
			d.childKey = "v"
		}
		ns.ShardRules = append(ns.ShardRules, &models.Shard{DB: rule.db, Table: d.child, Type: "linked", ParentTable: rule.table, Key: d.childKey})
	}
	sliceNaming := "slice-N"
	if rule.nSlices > 1 && tp.Chance(1, 3) {
		// slice names whose configuration order is not their alphabetical order
		names := [][]string{{"west", "east", "north"}, {"slice-2", "slice-10", "slice-1"}}[tp.Choose(2)]
		sliceNaming = strings.Join(names[:rule.nSlices], ",")
		renameSlices(ns, names)
	}
	w, err := NewWorld(r, map[string]*models.Namespace{"ns1": ns}, WorldOpts{})
	if err != nil {
		r.Failf("harness", "NewWorld with rule %+v: %v", *rule.shard, err)
		return
	}
	d.w = w
	if d.global != "" {
		d.globalCopySet = map[string]bool{}
		for _, cp := range d.globalCopies() {
			d.globalCopySet[cp] = true
		}
	}
	w.Cl.Logf = r.Logf
	w.Cl.Exec = d.exec
	w.Cl.Fault = func(c *mysim.Conn, st *mysim.Stmt) *mysim.FaultAction {
		if d.breakInsertOn != "" && c.B.Addr == d.breakInsertOn && st.Kind == "insert" {
			d.breakInsertOn = ""
			r.Fault("backend-connection-reset-during-insert")
			return &mysim.FaultAction{Reset: true}
		}
		return nil
	}
	r.SetSiteDensity(0, 0)
	cfg := fmt.Sprintf("rule=%s slices=%d perSlice=%d global=%v child=%v/%s sliceNames=%s", rule.typ, rule.nSlices, rule.perSlice, d.global != "", d.child != "", d.childKey, sliceNaming)
	r.Logf("config %s shard=%+v", cfg, *rule.shard)
	if !rule.mycat {
		d.logical[sqlmini.Key(d.physDB(rule.db), rule.table)] = true
		d.logical[sqlmini.Key(rule.db, rule.table)] = true
		// decoys: tables with the logical name on the default slice, holding poison
		decoy := d.store(stripAddr(ns.Slices[0].Master)).Create(d.physDB(rule.db), rule.table, dataCols)
		decoy.Rows = append(decoy.Rows, []sqlmini.Value{sqlmini.Int(666001), sqlmini.Int(1), sqlmini.Int(1), sqlmini.Str("poison"), sqlmini.Str("2014-05-01")})
		if d.child != "" {
			// the same for the linked child table
			d.logical[sqlmini.Key(d.physDB(rule.db), d.child)] = true
			d.logical[sqlmini.Key(rule.db, d.child)] = true
			cd := d.store(stripAddr(ns.Slices[0].Master)).Create(d.physDB(rule.db), d.child, dataCols)
			cd.Rows = append(cd.Rows, []sqlmini.Value{sqlmini.Int(666001), sqlmini.Int(1), sqlmini.Int(1), sqlmini.Str("poison"), sqlmini.Str("2014-05-01")})
		}
	}
	d.ref.Create(rule.db, rule.table, dataCols).Kinds = dataKinds
	d.ref.Create(rule.db, "t_plain", dataCols).Kinds = dataKinds
	if d.global != "" {
		d.ref.Create(d.gdb, d.global, dataCols).Kinds = dataKinds
	}
	if d.child != "" {
		d.ref.Create(rule.db, d.child, dataCols).Kinds = dataKinds
	}
	finished := false
	stats := map[string]int{}
	r.Go("client", func() {
		defer func() { finished = true }()
		c, err := w.Connect("", mycli.Options{User: "ns1_rw", Password: "pw_rw", DB: rule.db})
		if err != nil {
			r.Failf("harness", "cannot connect: %v", err)
			return
		}
		d.c = c
		d.sessDB = rule.db
		if !d.populate(tp, stats) {
			return
		}
		nOps := tp.Range(6, 16)
		for j := 0; j < nOps && !r.Failed() && !d.stop; j++ {
			if d.c.Dead {
				d.fail("harness", "connection lost")
				return
			}
			if tp.Chance(1, 6) {
				// the session moves to a database without shard rules, or back
				to := []string{"db2", "db3"}[tp.Choose(2)]
				if d.sessDB != rule.db {
					to = rule.db
				}
				d.useDB(to)
				stats["session-database-switched"]++
			}
			k := tp.Choose(10)
			if d.sessDB != rule.db {
				// from the other database only statements with qualified names make sense: global table or fast-path probes
				k = 9
				if d.global != "" && tp.Chance(1, 3) {
					k = 8
				}
			}
			switch {
			case k <= 4:
				d.opSelect(tp, stats)
			case k <= 6:
				d.opModify(tp, stats)
			case k == 7:
				d.opInsert(tp, stats)
			case k == 8 && d.global != "":
				d.opGlobal(tp, stats)
			default:
				d.opFastPath(tp, stats)
			}
			if d.sessDB != rule.db && tp.Chance(1, 2) {
				d.useDB(rule.db)
			}
		}
		if !d.c.Dead {
			d.c.Quit()
		}
	})
	driveBusy(r, tp, 8000, nil, func() bool { return !finished })
	r.Nontrivial = stats["checked"] > 0
	var ks []string
	for k := range stats {
		ks = append(ks, k)
	}
	sort.Strings(ks)
	for _, k := range ks {
		if stats[k] > 0 {
			r.Probe(k)
		}
	}
	r.Probe("rule-" + rule.typ)
	r.State(simkit.Hash(cfg + fmt.Sprint(stats)))
	r.Sample = map[string]interface{}{"config": cfg, "stats": stats, "other_property_violations_ignored": d.other, "trace_head": head(r.Trace(), 25)}
	w.Shutdown()
}
