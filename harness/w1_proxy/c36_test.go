package w1proxy

import (
	"errors"
	"fmt"
	"strings"

	"github.com/XiaoMi/Gaea/models"

	"verif/harness/mycli"
	"verif/harness/myproto"
	"verif/harness/simkit"
)

// C36: the SQL blacklist ignores literals, spacing, keyword case and comments, and nothing else.

func init() {
	worlds["C36"] = &simkit.World{Property: "C36", Run: runC36, Classify: func(*simkit.Run) {}, TraceCap: 2500, MinBudget: 250}
}

// c36tok is one token of a statement: keyword, identifier, operator, punctuation or literal.
type c36tok struct {
	text string
	kind string // kw | id | op | punct | num | str
}

type c36stmt struct {
	toks  []c36tok
	shape string
}

func kw(s string) c36tok    { return c36tok{s, "kw"} }
func id(s string) c36tok    { return c36tok{s, "id"} }
func op(s string) c36tok    { return c36tok{s, "op"} }
func punct(s string) c36tok { return c36tok{s, "punct"} }
func num(s string) c36tok   { return c36tok{s, "num"} }
func str(s string) c36tok   { return c36tok{s, "str"} }

var c36tables = []string{"t_plain", "t1", "orders_2024", "t_other"}
var c36cols = []string{"a", "b", "name", "level2", "c3"}
var c36ops = []string{"=", ">", "<", ">=", "<=", "<>"}
var c36nums = []string{"0", "1", "5", "42", "1000000", "3.5", "0.001"}
var c36strs = []string{"'x'", "'hello world'", "''", `'it\'s'`, "'it''s'", "'select * from t'", "'a;b'", "'-- no comment'", "'/* no */'", `"dq"`, "'5'",
	`'C:\\tmp\\'`, "'a#b'", `'\\'`, `"a\\"`, "'x /* y'"}

func c36lit(tp *simkit.Tape) c36tok {
	if tp.Chance(1, 2) {
		return num(c36nums[tp.Choose(len(c36nums))])
	}
	return str(c36strs[tp.Choose(len(c36strs))])
}

func c36cond(tp *simkit.Tape) []c36tok {
	return []c36tok{id(c36cols[tp.Choose(len(c36cols))]), op(c36ops[tp.Choose(len(c36ops))]), c36lit(tp)}
}

// c36gen draws a statement of one of the grammar's shapes.
func c36gen(tp *simkit.Tape) c36stmt {
	tbl := id(c36tables[tp.Choose(len(c36tables))])
	var t []c36tok
	shape := ""
	switch tp.Choose(6) {
	case 0, 1:
		shape = "select"
		t = append(t, kw("select"), id(c36cols[tp.Choose(len(c36cols))]))
		if tp.Chance(1, 2) {
			t = append(t, punct(","), id(c36cols[tp.Choose(len(c36cols))]))
		}
		t = append(t, kw("from"), tbl, kw("where"))
		t = append(t, c36cond(tp)...)
		if tp.Chance(1, 2) {
			t = append(t, kw([]string{"and", "or"}[tp.Choose(2)]))
			t = append(t, c36cond(tp)...)
		}
		if tp.Chance(1, 3) {
			t = append(t, kw("order"), kw("by"), id(c36cols[tp.Choose(len(c36cols))]))
		}
		if tp.Chance(1, 3) {
			t = append(t, kw("limit"), num(c36nums[tp.Choose(5)]))
		}
	case 2:
		shape = "insert"
		t = append(t, kw("insert"), kw("into"), tbl, punct("("), id("id"), punct(","), id(c36cols[tp.Choose(len(c36cols))]), punct(")"), kw("values"), punct("("), num(c36nums[tp.Choose(5)]), punct(","), c36lit(tp), punct(")"))
	case 3:
		shape = "update"
		t = append(t, kw("update"), tbl, kw("set"), id(c36cols[tp.Choose(len(c36cols))]), op("="), c36lit(tp), kw("where"))
		t = append(t, c36cond(tp)...)
	case 4:
		shape = "delete"
		t = append(t, kw("delete"), kw("from"), tbl, kw("where"))
		t = append(t, c36cond(tp)...)
		if tp.Chance(1, 3) {
			t = append(t, kw("and"))
			t = append(t, c36cond(tp)...)
		}
	case 5:
		shape = "select-between"
		t = append(t, kw("select"), op("*"), kw("from"), tbl, kw("where"), id(c36cols[tp.Choose(len(c36cols))]), kw("between"), num(c36nums[tp.Choose(5)]), kw("and"), num(c36nums[tp.Choose(5)]))
	}
	return c36stmt{toks: t, shape: shape}
}

// render writes the tokens with the given separators (sep[i] before token i, sep[len] at the end).
func (s c36stmt) render(sep []string) string {
	var sb strings.Builder
	for i, t := range s.toks {
		sb.WriteString(sep[i])
		sb.WriteString(t.text)
	}
	sb.WriteString(sep[len(s.toks)])
	return sb.String()
}

func (s c36stmt) plain() string {
	sep := make([]string, len(s.toks)+1)
	for i := 1; i < len(s.toks); i++ {
		sep[i] = " "
	}
	return s.render(sep)
}

// variant: same statement up to literals, spacing, keyword case and comments. Returns the text and what was varied.
func (s c36stmt) variant(tp *simkit.Tape) (string, []string) {
	v := c36stmt{shape: s.shape}
	var what []string
	mark := func(w string) {
		for _, x := range what {
			if x == w {
				return
			}
		}
		what = append(what, w)
	}
	reLit, reCase := tp.Chance(1, 2), tp.Chance(1, 2)
	for _, t := range s.toks {
		switch {
		case (t.kind == "num" || t.kind == "str") && reLit:
			// another literal of the same class
			if t.kind == "num" {
				t.text = c36nums[tp.Choose(len(c36nums))]
			} else {
				t.text = c36strs[tp.Choose(len(c36strs))]
			}
			mark("literals")
		case t.kind == "kw" && reCase:
			switch tp.Choose(3) {
			case 0:
				t.text = strings.ToUpper(t.text)
			case 1:
				t.text = strings.ToUpper(t.text[:1]) + t.text[1:]
			}
			mark("keyword-case")
		}
		v.toks = append(v.toks, t)
	}
	sep := make([]string, len(v.toks)+1)
	reSpace, comments := tp.Chance(1, 2), tp.Chance(1, 2)
	for i := range sep {
		base := " "
		if i == 0 || i == len(v.toks) {
			base = ""
		}
		sep[i] = base
		if reSpace && tp.Chance(1, 3) {
			sp := []string{"  ", "\t", "\n", " \n ", "\r\n", "   \t  "}[tp.Choose(6)]
			if i == len(v.toks) && strings.ContainsAny(sp, "\r\n") == false {
				sp = " "
			}
			sep[i] = sp
			mark("spacing")
			if strings.Contains(sp, "\r") {
				mark("spacing-crlf")
			}
		}
		if comments && i > 0 && tp.Chance(1, 4) {
			c := []string{"/* note */", "/* it's 5 = 5 */", "/**/", "-- trailing note\n", "# hash note\n"}[tp.Choose(5)]
			sep[i] = " " + c + " "
			if i == len(v.toks) {
				sep[i] = " " + strings.TrimSuffix(c, "\n")
			} else if tp.Chance(1, 3) {
				// glued to its neighbours: a comment separates tokens by itself
				sep[i] = c
				mark("comments-glued")
			}
			mark("comments")
		}
	}
	return v.render(sep), what
}

// mutant: a statement that differs in something else. Returns nil when no mutation applied.
func (s c36stmt) mutant(tp *simkit.Tape) (*c36stmt, string) {
	m := c36stmt{shape: s.shape, toks: append([]c36tok{}, s.toks...)}
	var idx []int
	want := []string{"id", "op"}[tp.Choose(2)]
	for i, t := range m.toks {
		if t.kind == want && t.text != "*" {
			idx = append(idx, i)
		}
	}
	kind := ""
	switch {
	case tp.Chance(1, 4):
		// another shape: one more condition
		m.toks = append(m.toks, kw("and"), id("extra"), op("="), num("1"))
		kind = "added-condition"
	case len(idx) == 0:
		return nil, ""
	default:
		i := idx[tp.Choose(len(idx))]
		old := m.toks[i].text
		pool := c36ops
		if want == "id" {
			pool = append(append([]string{}, c36cols...), c36tables...)
			pool = append(pool, "id")
		}
		for k := 0; k < 8; k++ {
			n := pool[tp.Choose(len(pool))]
			if n != old {
				m.toks[i].text = n
				break
			}
		}
		if m.toks[i].text == old {
			return nil, ""
		}
		kind = "other-" + map[string]string{"id": "identifier", "op": "operator"}[want]
	}
	return &m, kind
}

func runC36(r *simkit.Run) {
	tp := r.Tape
	nBlack := tp.Range(1, 4)
	var black []c36stmt
	ns := baseNamespace("ns1", 1, 0)
	for i := 0; i < nBlack; i++ {
		s := c36gen(tp)
		black = append(black, s)
		txt := s.plain()
		if tp.Chance(1, 4) {
			txt = "  " + txt + " "
		}
		ns.BlackSQL = append(ns.BlackSQL, txt)
	}
	// some runs allow multi-statement texts: a blacklisted statement is a blacklisted statement also as one piece of such a text
	multi := tp.Chance(1, 3)
	ns.SupportMultiQuery = multi
	copts := mycli.Options{User: "ns1_rw", Password: "pw_rw", DB: "db1"}
	if multi {
		copts.ExtraCaps = myproto.CMultiStatements
	}
	withSharded := tp.Chance(1, 3) // another, sharded namespace is loaded in the same process at some point
	w, err := NewWorld(r, map[string]*models.Namespace{"ns1": ns}, WorldOpts{})
	if err != nil {
		r.Failf("harness", "NewWorld: %v", err)
		return
	}
	w.Cl.Logf = r.Logf
	r.SetSiteDensity(0, 0)
	r.Logf("blacklist %q shardedNamespaceLater=%v multiStatements=%v", ns.BlackSQL, withSharded, multi)
	nOps := tp.Range(4, 12)
	shardAt, reloadAt := -1, -1
	if withSharded {
		shardAt = tp.Choose(nOps)
		if tp.Chance(1, 2) {
			reloadAt = shardAt + tp.Choose(nOps-shardAt)
		}
	}
	finished := false
	rejected, passed := 0, 0
	r.Go("client", func() {
		defer func() { finished = true }()
		c, err := w.Connect("", copts)
		if err != nil {
			r.Failf("harness", "cannot connect: %v", err)
			return
		}
		for j := 0; j < nOps; j++ {
			if j == shardAt {
				ns2 := shardedNamespace("ns2", 2, 0)
				w.AddBackendsOf(ns2)
				if err := w.Manager.ReloadNamespacePrepare(ns2); err != nil {
					r.Failf("harness", "prepare ns2: %v", err)
					return
				}
				if err := w.Manager.ReloadNamespaceCommit("ns2"); err != nil {
					r.Failf("harness", "commit ns2: %v", err)
					return
				}
				r.Fault("sharded-namespace-loaded")
			}
			if j == reloadAt {
				// the same configuration again: the blacklist is rebuilt
				if err := w.Manager.ReloadNamespacePrepare(ns); err != nil {
					r.Failf("harness", "prepare ns1: %v", err)
					return
				}
				if err := w.Manager.ReloadNamespaceCommit("ns1"); err != nil {
					r.Failf("harness", "commit ns1: %v", err)
					return
				}
				r.Fault("blacklist-namespace-reloaded")
				// the session was bound to the old generation: reconnect
				c.Quit()
				c, err = w.Connect("", copts)
				if err != nil {
					r.Failf("harness", "cannot reconnect: %v", err)
					return
				}
			}
			base := black[tp.Choose(len(black))]
			var sql, what string
			var other *c36stmt
			mustReject := false
			switch tp.Choose(5) {
			case 0, 1, 2:
				txt, varied := base.variant(tp)
				sql, what, mustReject = txt, "variant("+strings.Join(varied, ",")+")", true
				for _, v := range varied {
					r.Probe("variant-" + v)
				}
			case 3:
				mu, kind := base.mutant(tp)
				if mu == nil {
					continue
				}
				other = mu
				sql, what = mu.plain(), "mutant("+kind+")"
				r.Probe("mutant-" + kind)
			default:
				o := c36gen(tp)
				other = &o
				sql, what = o.plain(), "unrelated"
			}
			if !mustReject {
				// a mutant may coincide with another blacklisted statement: then it must be rejected
				for _, b := range black {
					if c36same(b, *other) {
						mustReject = true
						what += "=blacklisted"
					}
				}
			}
			if multi && tp.Chance(1, 3) {
				// as the first or the second piece of a multi-statement text (the other piece is harmless)
				if tp.Chance(1, 2) {
					sql, what = strings.TrimRight(strings.TrimSpace(sql), ";")+"; select 1", what+"+first-piece"
				} else {
					sql, what = "select 1; "+sql, what+"+second-piece"
				}
				r.Probe("sent-as-a-piece-of-a-multi-statement-text")
			}
			from := len(w.Cl.Log)
			_, qerr := c.Query(sql)
			reached := 0
			for _, b := range w.Cl.Log[from:] {
				if b.Cmd == "query" && !isNoise(b) {
					reached++
				}
			}
			r.Sched("op", fmt.Sprintf("%s/%v", what, qerr == nil))
			r.Logf("%s %q -> %s (reached %d backend statements)", what, sql, errText(qerr), reached)
			var se *myproto.ServerError
			isBlack := qerr != nil && errors.As(qerr, &se) && strings.Contains(se.Msg, "blacklist")
			if c.Dead {
				r.Failf("C36-session-lost", "the session died on %s %q: %v", what, sql, qerr)
				return
			}
			if mustReject {
				if !isBlack || reached > 0 {
					r.Failf("C36-variant-not-rejected", "%s of blacklisted statement %q: %q was answered %q and %d statements reached a backend", what, base.plain(), sql, errText(qerr), reached)
					return
				}
				rejected++
			} else {
				if isBlack {
					r.Failf("C36-other-statement-rejected", "%s %q differs from every blacklisted statement %q in more than literals, spacing, keyword case and comments but was rejected", what, sql, ns.BlackSQL)
					return
				}
				passed++
			}
		}
		c.Quit()
	})
	driveBusy(r, tp, 3000, nil, func() bool { return !finished })
	r.Nontrivial = rejected > 0 && passed > 0
	r.State(simkit.Hash(strings.Join(ns.BlackSQL, "|")))
	r.Sample = map[string]interface{}{"blacklist": ns.BlackSQL, "rejected": rejected, "passed": passed, "trace_head": head(r.Trace(), 25)}
	w.Shutdown()
}

// c36same: two generated statements are the same up to literal values (token-wise comparison of the generator's own output).
func c36same(a, b c36stmt) bool {
	if len(a.toks) != len(b.toks) {
		return false
	}
	for i := range a.toks {
		x, y := a.toks[i], b.toks[i]
		xl, yl := x.kind == "num" || x.kind == "str", y.kind == "num" || y.kind == "str"
		if xl && yl {
			continue
		}
		if x.kind != y.kind || x.text != y.text {
			return false
		}
	}
	return true
}
