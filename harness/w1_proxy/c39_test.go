package w1proxy

import (
	"errors"
	"fmt"
	"regexp"
	"sort"
	"strconv"
	"strings"
	"time"

	"github.com/XiaoMi/Gaea/models"

	"verif/harness/mycli"
	"verif/harness/myproto"
	"verif/harness/mysim"
	"verif/harness/simkit"
)

// C39: results are complete or an error, never silently truncated.

func init() {
	worlds["C39"] = &simkit.World{Property: "C39", Run: runC39, Classify: classifyC39, TraceCap: 2500, MinBudget: 120}
}

type c39world struct{ finding string }

var c39tbl = regexp.MustCompile(`t_shard_[0-9]+|t_plain`)

func runC39(r *simkit.Run) {
	tp := r.Tape
	cw := &c39world{}
	r.World = cw
	big := simkit.Params["force"] == "big"
	limit := []int{3, 5, 8, -1, 50}[tp.Choose(5)]
	if big {
		limit = []int{-1, 50, 8}[tp.Choose(3)]
	}
	if simkit.Params["case"] == "stream-limit" {
		limit = 50
	}
	withFaults := tp.Chance(1, 3)
	if simkit.Params["partition"] == "strict" {
		withFaults = false
	}
	// a namespace without shard rules forwards CALL: the reply is a chain of result sets read one after the other
	// from the same backend connection while the first ones are already on their way to the client
	noRules := !big && simkit.Params["case"] == "" && tp.Chance(1, 6)
	ns := shardedNamespace("ns1", 2, 0)
	if noRules {
		ns = baseNamespace("ns1", 2, 0)
	}
	ns.MaxSqlResultSize = limit
	w, err := NewWorld(r, map[string]*models.Namespace{"ns1": ns}, WorldOpts{})
	if err != nil {
		r.Failf("harness", "NewWorld: %v", err)
		return
	}
	w.Cl.Logf = r.Logf
	r.SetSiteDensity(0, 0)
	cfg := fmt.Sprintf("rowLimit=%d big=%v faults=%v shardRules=%v", limit, big, withFaults, !noRules)
	r.Logf("config %s", cfg)

	// what the backends are to answer for the statement in flight
	var (
		curMarker  string
		rowsFor    map[string]int // physical table -> number of rows it holds for this statement
		rowSize    int
		produced   map[string]int // physical table -> rows the backend started to send
		cutTable   string
		cutAfter   int
		cutReset   bool
		stallTable string
		stallFor   time.Duration
		pad        []byte
	)
	tblIndex := func(t string) int {
		if t == "t_plain" {
			return 9
		}
		if strings.HasPrefix(t, "set") {
			n, _ := strconv.Atoi(strings.TrimPrefix(t, "set"))
			return n + 1
		}
		n, _ := strconv.Atoi(strings.TrimPrefix(t, "t_shard_"))
		return n
	}
	var callSets []string // result sets of the CALL in flight, in order ("set0", "set1", ...)
	w.Cl.Exec = func(c *mysim.Conn, st *mysim.Stmt) *mysim.Reply {
		if curMarker != "" && strings.Contains(st.SQL, curMarker) && strings.HasPrefix(strings.ToLower(strings.TrimSpace(st.SQL)), "call ") {
			var first, last *mysim.Reply
			for i, name := range callSets {
				n := rowsFor[name]
				produced[name] = n
				base := (i + 1) * 1000000
				rep := &mysim.Reply{
					Columns: []myproto.Column{{Name: "id", Type: myproto.TLongLong, Length: 20}, {Name: "pad", Type: myproto.TVarString, Length: uint32(rowSize), Charset: 45}},
					NRows:   n,
					RowGen:  func(i int) [][]byte { return [][]byte{[]byte(strconv.Itoa(base + i)), pad} },
				}
				if name == cutTable && cutAfter < n {
					rep.CutAfter, rep.CutReset = cutAfter, cutReset
					if cutAfter == 0 {
						rep.CutAfter = 1
					}
					r.Fault("backend-cut-mid-result")
				}
				if name == stallTable {
					rep.StallNext = stallFor
					r.Fault("backend-stalled-between-results")
				}
				if first == nil {
					first = rep
				} else {
					last.Next = rep
				}
				last = rep
			}
			last.Next = &mysim.Reply{} // the procedure's final OK
			return first
		}
		if st.Kind != "select" || curMarker == "" || !strings.Contains(st.SQL, curMarker) {
			return nil
		}
		t := c39tbl.FindString(strings.ToLower(st.SQL))
		if t == "" {
			return nil
		}
		n := rowsFor[t]
		produced[t] = n
		base := tblIndex(t) * 1000000
		rep := &mysim.Reply{
			Columns: []myproto.Column{{Name: "id", Type: myproto.TLongLong, Length: 20}, {Name: "pad", Type: myproto.TVarString, Length: uint32(rowSize), Charset: 45}},
			NRows:   n,
			RowGen:  func(i int) [][]byte { return [][]byte{[]byte(strconv.Itoa(base + i)), pad} },
		}
		if t == cutTable && cutAfter < n {
			rep.CutAfter, rep.CutReset = cutAfter, cutReset
			if cutAfter == 0 {
				rep.CutAfter = 1
			}
			r.Fault("backend-cut-mid-result")
		}
		if t == stallTable {
			rep.StallAfter, rep.StallFor = 1, stallFor
			r.Fault("backend-stalled-mid-result")
		}
		return rep
	}
	nOps := tp.Range(2, 6)
	if big {
		nOps = tp.Range(1, 2)
	}
	finished := false
	full, refused, overLimit, crossed16 := 0, 0, 0, 0
	r.Go("client", func() {
		defer func() { finished = true }()
		var c *mycli.Client
		for j := 0; j < nOps; j++ {
			if c == nil || c.Dead {
				var err error
				c, err = w.Connect("", mycli.Options{User: "ns1_rw", Password: "pw_rw", DB: "db1"})
				if err != nil {
					r.Failf("harness", "cannot connect: %v", err)
					return
				}
			}
			m := markerOf(0, j)
			curMarker = fmt.Sprint(m)
			kind := []string{"unsharded", "single-shard", "multi-shard", "multi-shard", "some-shards"}[tp.Choose(5)]
			binary := tp.Chance(1, 3)
			if noRules {
				kind = []string{"unsharded", "call", "call"}[tp.Choose(3)]
				if kind == "call" {
					binary = false
				}
			}
			var sql string
			var tables []string
			callSets = nil
			switch kind {
			case "call":
				for i := 0; i < tp.Range(1, 3); i++ {
					callSets = append(callSets, fmt.Sprintf("set%d", i))
				}
				sql, tables = fmt.Sprintf("call p_report(%d)", m), callSets
			case "unsharded":
				sql, tables = fmt.Sprintf("select * from t_plain where k = %d", m), []string{"t_plain"}
			case "single-shard":
				key := tp.Choose(4)
				sql, tables = fmt.Sprintf("select * from t_shard where id = %d and k = %d", key, m), []string{fmt.Sprintf("t_shard_%04d", key)}
			case "some-shards":
				// two or three sub-tables, on one slice (0,1 / 2,3) or on both
				keys := tp.Perm(4)[:tp.Range(2, 3)]
				sort.Ints(keys)
				var ks []string
				for _, k := range keys {
					ks = append(ks, fmt.Sprint(k))
					tables = append(tables, fmt.Sprintf("t_shard_%04d", k))
				}
				sql = fmt.Sprintf("select * from t_shard where id in (%s) and k = %d", strings.Join(ks, ","), m)
			default:
				sql, tables = fmt.Sprintf("select * from t_shard where k = %d", m), []string{"t_shard_0000", "t_shard_0001", "t_shard_0002", "t_shard_0003"}
			}
			// sizes: around the row limit; in the big partition the bytes of one table's result cross 16 MiB
			rowsFor, produced = map[string]int{}, map[string]int{}
			rowSize = []int{1, 10, 300, 5000}[tp.Choose(4)]
			for _, t := range tables {
				n := tp.Choose(7)
				if limit > 0 {
					n = []int{0, 1, limit - 1, limit, limit, limit + 1, limit + 4, 2}[tp.Choose(8)]
				}
				rowsFor[t] = n
			}
			if big {
				rowSize = []int{1 << 20, 3 << 20, 600000}[tp.Choose(3)]
				bt := tables[tp.Choose(len(tables))]
				want := (17 << 20) / rowSize
				n := want + tp.Choose(6)
				if limit > 0 && tp.Chance(1, 2) && n > limit {
					n = limit
				}
				rowsFor[bt] = n
				if tp.Chance(1, 2) {
					rowsFor[bt] = n * 2
					if limit > 0 && rowsFor[bt] > limit && tp.Chance(1, 2) {
						rowsFor[bt] = limit
					}
				}
			}
			if simkit.Params["case"] == "stream-limit" {
				// a streamed result whose chunks each stay below the row limit while the whole result exceeds it
				kind, sql, tables = "unsharded", fmt.Sprintf("select * from t_plain where k = %d", m), []string{"t_plain"}
				rowsFor = map[string]int{"t_plain": limit + 10}
				rowSize = 600000
			}
			if len(pad) != rowSize {
				pad = []byte(strings.Repeat("p", rowSize))
			}
			cutTable, stallTable = "", ""
			faulted := ""
			if withFaults && tp.Chance(1, 2) {
				t := tables[tp.Choose(len(tables))]
				if tp.Chance(2, 3) && rowsFor[t] > 1 {
					cutTable, cutAfter, cutReset = t, 1+tp.Choose(rowsFor[t]-1), tp.Chance(1, 2)
					faulted = "cut"
				} else {
					stallTable, stallFor = t, time.Duration([]int{300, 2000, 7000}[tp.Choose(3)])*time.Millisecond
					faulted = "stall"
				}
			}
			var res []*mycli.Result
			var qerr error
			if binary {
				st, perr := c.Prepare(sql + " and j = ?")
				if perr != nil {
					r.Failf("harness", "prepare: %v", perr)
					return
				}
				res, qerr = c.Execute(st, []mycli.Param{mycli.PInt64(1)}, true)
			} else {
				res, qerr = c.Query(sql)
			}
			curMarker = ""
			// what the backends held for the statements that reached them
			total, maxPer, bytesMax := 0, 0, 0
			var want []int
			for t, n := range produced {
				total += n
				if n > maxPer {
					maxPer = n
				}
				if n*rowSize > bytesMax {
					bytesMax = n * rowSize
				}
				for i := 0; i < n; i++ {
					want = append(want, tblIndex(t)*1000000+i)
				}
			}
			sort.Ints(want)
			if bytesMax > 1<<24 {
				crossed16++
				r.Probe("per-shard-result-over-16MiB")
			}
			proto := "text"
			if binary {
				proto = "binary"
			}
			r.Sched("op", fmt.Sprintf("%s/%s/%s/%v", kind, proto, faulted, qerr == nil))
			r.Logf("%s %s %q: backends hold %v rows of %d bytes (limit %d, fault %q) -> %s", kind, proto, sql, produced, rowSize, limit, faulted, errText(qerr))
			r.Probe("statement-" + kind)
			r.Probe("protocol-" + proto)
			if qerr != nil {
				var se *myproto.ServerError
				if !errors.As(qerr, &se) && !c.Dead {
					r.Failf("C39-malformed-result", "%s %s %q: the reply is not a well-formed result or error: %v", kind, proto, sql, qerr)
					return
				}
				refused++
				if faulted == "" && (limit < 0 || maxPer <= limit) && len(produced) == len(tables) {
					if limit > 0 && maxPer == limit {
						cw.finding = ""
					}
					r.Failf("C39-complete-result-refused", "%s %s %q: every shard holds no more rows than the limit (%v, limit %d) and no fault was injected, but the client got %v", kind, proto, sql, produced, limit, qerr)
					return
				}
				if limit > 0 && maxPer > limit {
					overLimit++
					r.Probe("over-limit-answered-with-error")
				}
				if c.Dead {
					c = nil
				}
				continue
			}
			if kind == "call" {
				// every result set of the procedure and its final OK, or an error
				if len(res) != len(callSets)+1 {
					r.Failf("C39-silently-truncated", "%s %q: the backend answered with %d result sets %v and a final OK (fault %q); the client received %d results and no error", kind, sql, len(callSets), produced, faulted, len(res))
					return
				}
				r.Probe("multi-result-reply-delivered")
			} else if len(res) != 1 {
				r.Failf("C39-malformed-result", "%d results", len(res))
				return
			}
			var got []int
			rows := res[0].Rows
			if kind == "call" {
				rows = nil
				for _, rs := range res[:len(res)-1] {
					rows = append(rows, rs.Rows...)
				}
			}
			if binary {
				for _, br := range res[0].BinRows {
					rows = append(rows, [][]byte{[]byte(br[0].String())})
				}
			}
			for _, row := range rows {
				v, err := strconv.Atoi(string(row[0]))
				if err != nil {
					r.Failf("C39-malformed-result", "row id %q", row[0])
					return
				}
				got = append(got, v)
			}
			sort.Ints(got)
			same := len(got) == len(want)
			for i := 0; same && i < len(got); i++ {
				same = got[i] == want[i]
			}
			if !same {
				r.Failf("C39-silently-truncated", "%s %s %q: the backends produced %d rows %v (%d bytes each, fault %q) but the client received a well-formed result of %d rows and no error", kind, proto, sql, total, produced, rowSize, faulted, len(got))
				return
			}
			if limit > 0 && maxPer > limit {
				r.Failf("C39-limit-not-enforced", "%s %s %q: a shard result has %d rows, more than the namespace limit %d, and was delivered without an error", kind, proto, sql, maxPer, limit)
				return
			}
			full++
			if limit > 0 && maxPer == limit {
				r.Probe("result-of-exactly-the-limit-delivered")
			}
		}
		if c != nil && !c.Dead {
			c.Quit()
		}
	})
	driveBusy(r, tp, 6000, nil, func() bool { return !finished })
	r.Nontrivial = full > 0
	r.WantGC = big
	r.State(simkit.Hash(fmt.Sprint(cfg, full, refused, overLimit, crossed16)))
	r.Sample = map[string]interface{}{"config": cfg, "complete_results": full, "errors": refused, "trace_head": head(r.Trace(), 25)}
	w.Shutdown()
}

func classifyC39(r *simkit.Run) {
	if w, ok := r.World.(*c39world); ok && r.Viol != nil {
		r.Viol.Finding = w.finding
	}
}
