package w1proxy

import (
	"fmt"
	"regexp"
	"strconv"
	"strings"
	"time"

	"github.com/XiaoMi/Gaea/models"

	"verif/harness/mycli"
	"verif/harness/mysim"
	"verif/harness/simkit"
)

// Generic session workload of the W1 world: a few clients run command scripts
// through the real proxy; every client operation and every statement a
// backend receives are recorded and attributed through unique literals.

type Op struct {
	Kind   string // query | ping | use | quit | drop | connect
	SQL    string
	Marker int    // unique literal carried by data statements (0 = none)
	Class  string // begin commit rollback set-ac0 set-ac1 savepoint read write lockread hintread roprobe set names uservar showvar other
	Table  string
	Arg    string
}

type OpRec struct {
	Client  int
	Idx     int
	Op      Op
	LogFrom int // backend log length at invoke
	LogTo   int // backend log length at return
	Seq0    int64
	Seq1    int64
	Res     []*mycli.Result
	Err     error
	TxOpen  bool   // client-side model: inside a transaction when the operation was issued
	TxID    int    // transaction number of this client (0 = none)
	AC      bool   // autocommit before
	Charset string // requested settings before the operation
	Vars    map[string]string
	UVars   map[string]string
	At      time.Duration
	Overlap bool // another client's operation was in flight at some point during this one
}

// defaultCollation: MySQL's default collation of each character set the workloads use (5.7 servers).
var defaultCollation = map[string]string{"utf8mb4": "utf8mb4_general_ci", "utf8": "utf8_general_ci", "gbk": "gbk_chinese_ci", "latin1": "latin1_swedish_ci"}

// ClientModel is what the client itself knows about its session (independent of the proxy).
type ClientModel struct {
	Idx       int
	User      string
	DB        string
	AC        bool
	TxOpen    bool
	TxID      int
	txCounter int
	Charset   string
	Coll      string
	Vars      map[string]string
	UVars     map[string]string
	Connected bool
	Dead      bool
	C         *mycli.Client
	Script    []Op
}

type History struct {
	W        *World
	Ops      []*OpRec
	Clients  []*ClientModel
	seq      int64
	inFlight map[int]*OpRec
}

var markerRe = regexp.MustCompile(`\b(9[0-9]{6})\b`)

func markersIn(sql string) []int {
	var out []int
	for _, m := range markerRe.FindAllString(sql, -1) {
		v, _ := strconv.Atoi(m)
		out = append(out, v)
	}
	return out
}

func markerOf(client, op int) int { return 9000000 + client*10000 + op }

func clientOfMarker(m int) int { return (m - 9000000) / 10000 }

func (h *History) tick() int64 { h.seq++; return h.seq }

// isNoise reports backend traffic that the proxy generates by itself (health checks).
func isNoise(st *mysim.Stmt) bool {
	if st.Cmd == "ping" {
		return true
	}
	low := strings.ToLower(strings.TrimSpace(st.SQL))
	return low == "select 1" || strings.HasPrefix(low, "show slave status")
}

// run executes one operation of a client and records it.
func (h *History) run(cm *ClientModel, idx int, op Op) *OpRec {
	rec := &OpRec{Client: cm.Idx, Idx: idx, Op: op, LogFrom: len(h.W.Cl.Log), Seq0: h.tick(), TxOpen: cm.TxOpen, TxID: cm.TxID, AC: cm.AC,
		Charset: cm.Charset, Vars: copyMap(cm.Vars), UVars: copyMap(cm.UVars), At: h.W.R.Now()}
	if len(h.inFlight) > 0 {
		rec.Overlap = true
		for _, o := range h.inFlight {
			o.Overlap = true
		}
	}
	h.inFlight[cm.Idx] = rec
	h.Ops = append(h.Ops, rec)
	c := cm.C
	switch op.Kind {
	case "query":
		rec.Res, rec.Err = c.Query(op.SQL)
	case "ping":
		rec.Err = c.Ping()
	case "use":
		rec.Err = c.UseDB(op.Arg)
	case "fieldlist":
		_, rec.Err = c.FieldList(op.Arg)
	case "quit":
		c.Quit()
		cm.Dead = true
	case "drop":
		c.NC.Close()
		cm.Dead = true
	}
	delete(h.inFlight, cm.Idx)
	rec.LogTo = len(h.W.Cl.Log)
	rec.Seq1 = h.tick()
	if c.Dead {
		cm.Dead = true
	}
	h.updateModel(cm, rec)
	return rec
}

func copyMap(m map[string]string) map[string]string {
	o := map[string]string{}
	for k, v := range m {
		o[k] = v
	}
	return o
}

// updateModel advances the client's own view of its session after an operation.
func (h *History) updateModel(cm *ClientModel, rec *OpRec) {
	if rec.Err != nil {
		return
	}
	switch rec.Op.Class {
	case "begin":
		cm.TxOpen = true
		cm.txCounter++
		cm.TxID = cm.txCounter
	case "commit", "rollback":
		if cm.AC {
			cm.TxOpen = false
			cm.TxID = 0
		} else {
			// autocommit off: the next statement opens the next transaction
			cm.txCounter++
			cm.TxID = cm.txCounter
		}
	case "set-ac0":
		cm.AC = false
		if !cm.TxOpen {
			cm.TxOpen = true
			cm.txCounter++
			cm.TxID = cm.txCounter
		}
	case "set-ac1":
		// MySQL: switching autocommit from 0 to 1 commits the open transaction; setting it to 1 when it is 1
		// already changes nothing, a transaction opened with BEGIN stays open
		if !cm.AC {
			cm.TxOpen = false
			cm.TxID = 0
		}
		cm.AC = true
	case "names":
		// Arg is "charset" (the connection collation becomes the default collation of the
		// character set, as in MySQL) or "charset/collation"
		if cs, col, ok := strings.Cut(rec.Op.Arg, "/"); ok {
			cm.Charset, cm.Coll = cs, col
		} else {
			cm.Charset, cm.Coll = cs, defaultCollation[cs]
		}
	case "set":
		kv := strings.SplitN(rec.Op.Arg, "=", 2)
		if kv[1] == "DEFAULT" {
			delete(cm.Vars, kv[0])
		} else {
			cm.Vars[kv[0]] = kv[1]
		}
	case "uservar":
		kv := strings.SplitN(rec.Op.Arg, "=", 2)
		if kv[1] == "NULL" {
			delete(cm.UVars, kv[0])
		} else {
			cm.UVars[kv[0]] = kv[1]
		}
	}
	if rec.Op.Kind == "use" {
		cm.DB = rec.Op.Arg
	}
}

// stmtsOf returns the backend statements that carry the marker of an operation.
func (h *History) stmtsOf(rec *OpRec) []*mysim.Stmt {
	var out []*mysim.Stmt
	if rec.Op.Marker == 0 {
		return nil
	}
	for _, st := range h.W.Cl.Log[rec.LogFrom:] {
		for _, m := range markersIn(st.SQL) {
			if m == rec.Op.Marker {
				out = append(out, st)
				break
			}
		}
	}
	return out
}

// window returns the non-noise backend statements received during the operation.
func (h *History) window(rec *OpRec) []*mysim.Stmt {
	var out []*mysim.Stmt
	to := rec.LogTo
	if to > len(h.W.Cl.Log) {
		to = len(h.W.Cl.Log)
	}
	for _, st := range h.W.Cl.Log[rec.LogFrom:to] {
		if !isNoise(st) {
			out = append(out, st)
		}
	}
	return out
}

func errText(err error) string {
	if err == nil {
		return "ok"
	}
	s := err.Error()
	if len(s) > 120 {
		s = s[:120]
	}
	return s
}

// shardedNamespace adds a hash-sharded table t_shard (key id) over every slice to a base namespace.
func shardedNamespace(name string, nSlices, nSlaves int) *models.Namespace {
	ns := baseNamespace(name, nSlices, nSlaves)
	var slices []string
	var locs []int
	for i := 0; i < nSlices; i++ {
		slices = append(slices, fmt.Sprintf("slice-%d", i))
		locs = append(locs, 2)
	}
	ns.ShardRules = []*models.Shard{{DB: "db1", Table: "t_shard", Type: "hash", Key: "id", Locations: locs, Slices: slices}}
	return ns
}

// drive lets the client tasks run, one released at a time, until all scripts are done.
func drive(r *simkit.Run, tp *simkit.Tape, maxSteps int, between func()) {
	driveBusy(r, tp, maxSteps, between, nil)
}

// driveBusy is drive with a predicate telling whether client operations are still in flight
// (blocked on simulated time: timeouts, slow backends); the clock is advanced for them.
func driveBusy(r *simkit.Run, tp *simkit.Tape, maxSteps int, between func(), busy func() bool) {
	idle := 0
	for r.Steps < maxSteps && !r.Failed() {
		r.Settle()
		if between != nil {
			between()
		}
		en := r.Enabled()
		if len(en) == 0 {
			// tasks may be blocked on simulated time (timeouts, slow backends)
			if r.ParkedCount() == 0 && idle > 3 && (busy == nil || !busy()) {
				return
			}
			idle++
			if idle > 400 {
				return
			}
			r.Advance(200 * time.Millisecond)
			continue
		}
		idle = 0
		r.Release(en[tp.Choose(len(en))])
	}
}
