// Package simcoord is the simulated coordinator (etcd stand-in) of the control-plane world: an in-memory
// key/value tree behind the repository's models.Client interface, with fault injection decided by the
// simulator (failed reads and writes, stale reads, corrupted or truncated stored bytes).
package simcoord

import (
	"errors"
	"sort"
	"strings"
	"time"
)

// Fault is what the injector may do to one operation.
type Fault int

const (
	None      Fault = iota
	Fail            // the operation returns an error and has no effect
	FailAfter       // a write takes effect but the caller gets an error (lost reply)
	Stale           // a read returns the previous value of the key
	Corrupt         // a read returns the stored bytes with one byte flipped
	Truncate        // a read returns a prefix of the stored bytes
)

// Coordinator is shared by every client handle of a run.
type Coordinator struct {
	Data map[string][]byte
	Prev map[string][]byte
	// Decide is asked before every operation: op is create|update|delete|read|list, path the full key.
	Decide func(op, path string) Fault
	Log    func(format string, a ...interface{})
	Ops    int
}

func New() *Coordinator {
	return &Coordinator{Data: map[string][]byte{}, Prev: map[string][]byte{}}
}

var ErrInjected = errors.New("simcoord: injected coordinator failure")

// Client is one handle (models.NewClient returns a new one per call).
type Client struct {
	C    *Coordinator
	Root string
}

func (c *Client) full(p string) string { return p }

func (c *Client) decide(op, path string) Fault {
	c.C.Ops++
	if c.C.Decide == nil {
		return None
	}
	f := c.C.Decide(op, path)
	if f != None && c.C.Log != nil {
		c.C.Log("coordinator fault %d on %s %s", f, op, path)
	}
	return f
}

func (c *Client) write(op, path string, data []byte) error {
	switch c.decide(op, path) {
	case Fail:
		return ErrInjected
	case FailAfter:
		c.set(path, data)
		return ErrInjected
	}
	c.set(path, data)
	return nil
}

func (c *Client) set(path string, data []byte) {
	if old, ok := c.C.Data[path]; ok {
		c.C.Prev[path] = old
	}
	c.C.Data[path] = append([]byte{}, data...)
}

func (c *Client) Create(path string, data []byte) error { return c.write("create", path, data) }
func (c *Client) Update(path string, data []byte) error { return c.write("update", path, data) }
func (c *Client) UpdateWithTTL(path string, data []byte, ttl time.Duration) error {
	return c.write("update", path, data)
}

func (c *Client) Delete(path string) error {
	switch c.decide("delete", path) {
	case Fail:
		return ErrInjected
	case FailAfter:
		c.del(path)
		return ErrInjected
	}
	c.del(path)
	return nil
}

func (c *Client) del(path string) {
	for k := range c.C.Data {
		if k == path || strings.HasPrefix(k, path+"/") {
			c.C.Prev[k] = c.C.Data[k]
			delete(c.C.Data, k)
		}
	}
}

func (c *Client) Read(path string) ([]byte, error) {
	f := c.decide("read", path)
	if f == Fail {
		return nil, ErrInjected
	}
	v, ok := c.C.Data[path]
	if f == Stale {
		if p, had := c.C.Prev[path]; had {
			v, ok = p, true
		}
	}
	if !ok {
		return nil, nil // like the etcd v2 client of the repository: a missing key is (nil, nil)
	}
	out := append([]byte{}, v...)
	switch f {
	case Corrupt:
		if len(out) > 0 {
			out[len(out)/2] ^= 0x20
		}
	case Truncate:
		out = out[:len(out)/2]
	}
	return out, nil
}

func (c *Client) List(path string) ([]string, error) {
	if c.decide("list", path) == Fail {
		return nil, ErrInjected
	}
	seen := map[string]bool{}
	var out []string
	prefix := strings.TrimSuffix(path, "/") + "/"
	for k := range c.C.Data {
		if strings.HasPrefix(k, prefix) {
			rest := strings.SplitN(k[len(prefix):], "/", 2)[0]
			if !seen[rest] {
				seen[rest] = true
				out = append(out, prefix+rest)
			}
		}
	}
	sort.Strings(out)
	return out, nil
}

func (c *Client) ListWithValues(path string) (map[string]string, error) {
	if c.decide("list", path) == Fail {
		return nil, ErrInjected
	}
	out := map[string]string{}
	prefix := strings.TrimSuffix(path, "/") + "/"
	for k, v := range c.C.Data {
		if strings.HasPrefix(k, prefix) && !strings.Contains(k[len(prefix):], "/") {
			out[k] = string(v)
		}
	}
	return out, nil
}

func (c *Client) Close() error       { return nil }
func (c *Client) BasePrefix() string { return c.Root }
