package w0mysql

import (
	"bytes"
	"errors"
	"fmt"
	"io"
	"net"
	"time"

	"github.com/XiaoMi/Gaea/mysql"

	"verif/harness/simkit"
)

// C11: the real mysql.Conn packet writer and both readers over a simulated
// byte transport that fragments, truncates and corrupts the stream. The wire
// format is checked by an independent framer written here.

func init() {
	worlds["C11"] = &simkit.World{Property: "C11", Run: runC11, TraceCap: 400, MinBudget: 300}
}

const maxFrame = 1<<24 - 1

// ---- independent framer ----------------------------------------------------

type frame struct {
	seq  byte
	body []byte
}

func refFrames(payload []byte, seq byte) []frame {
	var fs []frame
	for {
		n := len(payload)
		if n > maxFrame {
			n = maxFrame
		}
		fs = append(fs, frame{seq, payload[:n]})
		seq++
		payload = payload[n:]
		if n < maxFrame {
			return fs
		}
	}
}

func refWire(fs []frame) []byte {
	var w []byte
	for _, f := range fs {
		n := len(f.body)
		w = append(w, byte(n), byte(n>>8), byte(n>>16), f.seq)
		w = append(w, f.body...)
	}
	return w
}

// parseWire splits a wire image into frames; error if it is not a whole number of frames.
func parseWire(w []byte) ([]frame, error) {
	var fs []frame
	for len(w) > 0 {
		if len(w) < 4 {
			return fs, fmt.Errorf("dangling %d header bytes", len(w))
		}
		n := int(w[0]) | int(w[1])<<8 | int(w[2])<<16
		if len(w) < 4+n {
			return fs, fmt.Errorf("frame announces %d bytes, %d present", n, len(w)-4)
		}
		fs = append(fs, frame{w[3], w[4 : 4+n]})
		w = w[4+n:]
	}
	return fs, nil
}

// ---- simulated transport -----------------------------------------------------

type simStream struct {
	data     []byte
	pos      int
	cuts     []int // sorted absolute offsets at which a Read must stop
	eofAt    int   // stream ends here (truncation) when >= 0
	reads    int
	wrote    bytes.Buffer
	wfrag    func(n int) int
	resetW   bool
	eofReads int
}

func (s *simStream) Read(p []byte) (int, error) {
	end := len(s.data)
	if s.eofAt >= 0 && s.eofAt < end {
		end = s.eofAt
	}
	if s.pos >= end {
		// a reader that keeps asking after the end of the stream would spin forever: that is a framing failure, not a hang of the harness
		s.eofReads++
		if s.eofReads > 100000 {
			panic("the packet reader keeps calling Read after the stream has ended (it never returns)")
		}
		return 0, io.EOF
	}
	n := len(p)
	if s.pos+n > end {
		n = end - s.pos
	}
	// cuts are sorted: the first one behind the current position decides (binary search: there can be millions)
	lo, hi := 0, len(s.cuts)
	for lo < hi {
		mid := (lo + hi) / 2
		if s.cuts[mid] > s.pos {
			hi = mid
		} else {
			lo = mid + 1
		}
	}
	if lo < len(s.cuts) && s.cuts[lo] < s.pos+n {
		n = s.cuts[lo] - s.pos
	}
	copy(p, s.data[s.pos:s.pos+n])
	s.pos += n
	s.reads++
	return n, nil
}

func (s *simStream) Write(p []byte) (int, error)        { s.wrote.Write(p); return len(p), nil }
func (s *simStream) Close() error                       { return nil }
func (s *simStream) LocalAddr() net.Addr                { return &net.TCPAddr{} }
func (s *simStream) RemoteAddr() net.Addr               { return &net.TCPAddr{} }
func (s *simStream) SetDeadline(t time.Time) error      { return nil }
func (s *simStream) SetReadDeadline(t time.Time) error  { return nil }
func (s *simStream) SetWriteDeadline(t time.Time) error { return nil }

var errShort = errors.New("short")

func pattern(n int, salt byte) []byte {
	b := make([]byte, n)
	x := uint32(salt)*2654435761 + 12345
	for i := 0; i+4 <= n; i += 4 {
		x = x*1664525 + 1013904223
		b[i], b[i+1], b[i+2], b[i+3] = byte(x), byte(x>>8), byte(x>>16), byte(x>>24)
	}
	for i := n &^ 3; i < n; i++ {
		b[i] = byte(i) ^ salt
	}
	return b
}

func runC11(r *simkit.Run) {
	tp := r.Tape
	big := []int{maxFrame - 1, maxFrame, maxFrame + 1, 2*maxFrame - 1, 2 * maxFrame, 2*maxFrame + 1}
	small := []int{0, 1, 2, 3, 4, 5, 127, 128, 129, 255, 256, 4095, 4096, 4097, 16383, 16384, 16385, 65535, 65536}
	nPackets := tp.Range(1, 3)
	var lens []int
	hasBig := false
	defer func() { r.WantGC = hasBig }()
	for i := 0; i < nPackets; i++ {
		switch c := tp.Choose(20); {
		case c == 0 && !hasBig:
			lens = append(lens, big[tp.Choose(len(big))])
			hasBig = true
		case c < 12:
			lens = append(lens, small[tp.Choose(len(small))])
		default:
			lens = append(lens, tp.Range(0, 70000))
		}
	}
	if simkit.Params["force"] == "big" {
		lens[0] = big[tp.Choose(len(big))]
		hasBig = true
	}
	startSeq := byte([]int{0, 1, 250, 253, 254, 255, tp.Choose(256)}[tp.Choose(7)])
	buffered := tp.Chance(1, 2)
	readerAPI := tp.Choose(2) // 0 ReadPacket, 1 ReadEphemeralPacket
	fault := []string{"none", "none", "truncate", "corrupt-seq"}[tp.Choose(4)]
	cfg := fmt.Sprintf("lens=%v startSeq=%d buffered=%v reader=%d fault=%s", lens, startSeq, buffered, readerAPI, fault)
	r.Logf("config %s", cfg)
	payloads := make([][]byte, len(lens))
	for i, n := range lens {
		payloads[i] = pattern(n, byte(i+1))
	}

	// ---- writer side: real WritePacket, checked by the independent framer
	ws := &simStream{eofAt: -1}
	wc := mysql.NewConn(ws)
	wc.SetSequence(startSeq)
	if buffered {
		wc.StartWriterBuffering()
	}
	for i, p := range payloads {
		var err error
		if i%2 == 1 && len(p) < 1<<20 {
			buf := wc.StartEphemeralPacket(len(p))
			copy(buf, p)
			err = wc.WriteEphemeralPacket()
		} else {
			err = wc.WritePacket(p)
		}
		if err != nil {
			r.Failf("write-error", "writing %d bytes failed: %v", len(p), err)
			r.WantGC = hasBig
			return
		}
	}
	if buffered {
		if err := wc.Flush(); err != nil {
			r.Failf("write-error", "flush: %v", err)
			return
		}
	}
	wire := ws.wrote.Bytes()
	got, err := parseWire(wire)
	if err != nil {
		r.Failf("wire-malformed", "bytes written for %v are not whole frames: %v", lens, err)
		return
	}
	var want []frame
	seq := startSeq
	for _, p := range payloads {
		fs := refFrames(p, seq)
		seq += byte(len(fs))
		want = append(want, fs...)
	}
	if len(got) != len(want) {
		r.Failf("wire-frame-count", "payload lengths %v were written as %d frames, the protocol requires %d (%s)", lens, len(got), len(want), frameLens(got))
		return
	}
	for i := range want {
		if len(got[i].body) > maxFrame {
			r.Failf("wire-frame-too-long", "frame %d has %d bytes", i, len(got[i].body))
			return
		}
		if got[i].seq != want[i].seq {
			r.Failf("wire-sequence", "frame %d of %v carries sequence id %d, expected %d", i, lens, got[i].seq, want[i].seq)
			return
		}
		if !bytes.Equal(got[i].body, want[i].body) {
			r.Failf("wire-bytes", "frame %d of %v differs from the payload slice it must carry (len %d vs %d)", i, lens, len(got[i].body), len(want[i].body))
			return
		}
	}
	if wc.GetSequence() != seq {
		r.Failf("writer-sequence", "writer sequence after %v is %d, expected %d", lens, wc.GetSequence(), seq)
		return
	}

	// ---- reader side: independent wire image, fragmented / truncated / corrupted
	image := refWire(want)
	rs := &simStream{data: image, eofAt: -1}
	// fragmentation plan
	var bounds []int // frame boundaries
	off := 0
	for _, f := range want {
		bounds = append(bounds, off, off+4)
		off += 4 + len(f.body)
	}
	bounds = append(bounds, off)
	mode := tp.Choose(4)
	switch mode {
	case 0: // everything at once
	case 1: // byte by byte around every boundary
		for _, b := range bounds {
			for d := -6; d <= 6; d++ {
				if c := b + d; c > 0 && c < len(image) {
					rs.cuts = append(rs.cuts, c)
				}
			}
		}
	case 2: // random chunks
		c := 0
		for c < len(image) {
			var step int
			if len(image) > 1<<20 {
				step = tp.Range(1, 1<<22)
			} else {
				step = tp.Range(1, 1+len(image)/2)
			}
			c += step
			rs.cuts = append(rs.cuts, c)
		}
	case 3: // one byte at a time (small streams only), else boundaries +-1
		if len(image) <= 2048 {
			for c := 1; c < len(image); c++ {
				rs.cuts = append(rs.cuts, c)
			}
		} else {
			for _, b := range bounds {
				for _, d := range []int{-1, 1, 2, 3} {
					if c := b + d; c > 0 && c < len(image) {
						rs.cuts = append(rs.cuts, c)
					}
				}
			}
		}
	}
	sortInts(rs.cuts)
	faultFrame := -1
	switch fault {
	case "truncate":
		if len(image) > 0 {
			// inside a header, inside a body, or exactly between two frames of one payload
			switch tp.Choose(3) {
			case 0:
				b := bounds[2*tp.Choose(len(want))]
				rs.eofAt = b + tp.Range(0, 3)
			case 1:
				rs.eofAt = tp.Range(0, len(image)-1)
			default:
				rs.eofAt = bounds[2*tp.Choose(len(want))]
			}
			if rs.eofAt >= len(image) {
				rs.eofAt = len(image) - 1
			}
			r.Fault("truncate")
		}
	case "corrupt-seq":
		faultFrame = tp.Choose(len(want))
		hdr := bounds[2*faultFrame] + 3
		image[hdr] += byte(tp.Range(1, 255))
		r.Fault("corrupt-seq")
		if len(want[faultFrame].body) == 0 {
			r.Probe("corrupt-seq-on-empty-frame")
		}
	}
	rc := mysql.NewConn(rs)
	rc.SetSequence(startSeq)
	consumedFrames := 0
	for i, p := range payloads {
		nf := len(refFrames(p, 0))
		firstByte := bounds[2*consumedFrames]
		lastByte := bounds[2*(consumedFrames+nf)-1] + len(want[consumedFrames+nf-1].body)
		var data []byte
		var err error
		if readerAPI == 0 {
			data, err = rc.ReadPacket()
		} else {
			data, err = rc.ReadEphemeralPacket()
		}
		truncated := rs.eofAt >= 0 && rs.eofAt < lastByte
		corrupted := faultFrame >= consumedFrames && faultFrame < consumedFrames+nf
		_ = firstByte
		switch {
		case truncated || corrupted:
			if err == nil {
				what := "truncated"
				if corrupted {
					what = fmt.Sprintf("carrying a wrong sequence id in frame %d (len %d)", faultFrame-consumedFrames, len(want[faultFrame].body))
				}
				r.Failf("reader-accepted-bad-stream", "packet %d (%d bytes, %d frames) was %s but the reader returned %d bytes and no error", i, len(p), nf, what, len(data))
			}
			r.Probe("reader-rejected-" + fault)
			goto done
		case err != nil:
			r.Failf("reader-error", "packet %d of %v (fragmentation mode %d, %d reads): %v", i, lens, mode, rs.reads, err)
			goto done
		case !bytes.Equal(data, p):
			r.Failf("reader-bytes", "packet %d of %v read back as %d bytes, differs from the %d bytes written", i, lens, len(data), len(p))
			goto done
		}
		if readerAPI == 1 && tp.Chance(1, 3) {
			// while this payload is still held (not recycled yet), another connection of the process reads a
			// payload of the same size class through the shared buffer pool: what the first reader returned must
			// stay the original payload until it says it is done with it
			other := pattern(len(p), 0x5a)
			rc2 := mysql.NewConn(&simStream{data: refWire(refFrames(other, 0)), eofAt: -1})
			d2, err2 := rc2.ReadEphemeralPacket()
			if err2 != nil || !bytes.Equal(d2, other) {
				r.Failf("reader-bytes", "a second connection reading %d bytes got %d bytes, err %v", len(other), len(d2), err2)
				goto done
			}
			if !bytes.Equal(data, p) {
				r.Failf("reader-bytes", "packet %d (%d bytes) was returned intact, but while it was still held (before RecycleReadPacket) a read of %d bytes on another connection changed it", i, len(p), len(other))
				goto done
			}
			rc2.RecycleReadPacket()
			r.Probe("payload-held-while-another-connection-reads")
		}
		if readerAPI == 1 {
			rc.RecycleReadPacket()
		}
		consumedFrames += nf
		if rc.GetSequence() != startSeq+byte(consumedFrames) {
			r.Failf("reader-sequence", "reader sequence after packet %d is %d, expected %d", i, rc.GetSequence(), startSeq+byte(consumedFrames))
			goto done
		}
	}
done:
	r.Steps += rs.reads + len(got)
	r.Sched("cfg", cfg)
	r.Sched("frag", fmt.Sprint(mode, len(rs.cuts), rs.eofAt, faultFrame))
	r.Nontrivial = len(rs.cuts) > 0 || fault != "none" || len(want) > len(payloads)
	if hasBig {
		r.Probe("payload-at-16MiB-boundary")
		r.WantGC = true
	}
	for _, n := range lens {
		if n > 0 && n%maxFrame == 0 {
			r.Probe("empty-terminator-frame")
		}
	}
	r.State(simkit.Hash(fmt.Sprint(lens, mode, fault, readerAPI, buffered)))
	r.Sample = map[string]interface{}{"config": cfg, "frames": frameLens(want), "fragmentation_mode": mode, "cuts": len(rs.cuts), "reads": rs.reads, "eof_at": rs.eofAt, "corrupt_frame": faultFrame}
}

func frameLens(fs []frame) string {
	s := "frames["
	for i, f := range fs {
		if i > 0 {
			s += " "
		}
		s += fmt.Sprintf("%d#%d", len(f.body), f.seq)
	}
	return s + "]"
}

func sortInts(a []int) {
	for i := 1; i < len(a); i++ {
		for j := i; j > 0 && a[j] < a[j-1]; j-- {
			a[j], a[j-1] = a[j-1], a[j]
		}
	}
}
