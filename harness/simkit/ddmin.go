package simkit

// Minimize shrinks a failing tape with ddmin (delete chunks) followed by
// lowering single entries towards 0, keeping the property "same clause".
// test must return true iff the candidate still fails the same way.
func Minimize(tape []uint32, budget int, test func([]uint32) bool) []uint32 {
	cur := append([]uint32(nil), tape...)
	// strip trailing zeros: an exhausted tape yields zeros anyway
	trim := func(v []uint32) []uint32 {
		for len(v) > 0 && v[len(v)-1] == 0 {
			v = v[:len(v)-1]
		}
		return v
	}
	cur = trim(cur)
	tries := 0
	try := func(c []uint32) bool {
		if tries >= budget {
			return false
		}
		tries++
		return test(c)
	}
	// truncate from the end first (cheap and very effective)
	for n := len(cur) / 2; n >= 1; n /= 2 {
		for len(cur) >= n {
			c := trim(append([]uint32(nil), cur[:len(cur)-n]...))
			if try(c) {
				cur = c
			} else {
				break
			}
		}
	}
	// ddmin: delete chunks
	for chunk := len(cur) / 2; chunk >= 1 && tries < budget; chunk /= 2 {
		for i := 0; i+chunk <= len(cur) && tries < budget; {
			c := append(append([]uint32(nil), cur[:i]...), cur[i+chunk:]...)
			if try(trim(c)) {
				cur = trim(c)
			} else {
				i += chunk
			}
		}
	}
	// zero chunks, then single entries
	for chunk := len(cur) / 2; chunk >= 1 && tries < budget; chunk /= 2 {
		for i := 0; i+chunk <= len(cur) && tries < budget; i += chunk {
			allZero := true
			for _, v := range cur[i : i+chunk] {
				if v != 0 {
					allZero = false
				}
			}
			if allZero {
				continue
			}
			c := append([]uint32(nil), cur...)
			for j := i; j < i+chunk; j++ {
				c[j] = 0
			}
			if try(trim(c)) {
				cur = trim(c)
			}
		}
	}
	// lower entries: reduce to small residues
	for i := 0; i < len(cur) && tries < budget; i++ {
		if cur[i] <= 1 {
			continue
		}
		for _, v := range []uint32{1, 2, 3, cur[i] % 16, cur[i] % 256} {
			if v >= cur[i] {
				continue
			}
			c := append([]uint32(nil), cur...)
			c[i] = v
			if try(c) {
				cur = c
				break
			}
		}
	}
	return cur
}
