package simkit

import (
	"context"
	"fmt"
	"hash/fnv"
	"os"
	"runtime"
	"runtime/debug"
	"sort"
	"strings"
	"sync"
	"testing"
	"testing/synctest"
	"time"

	"github.com/XiaoMi/Gaea/util/verifhook"
)

// Violation is the first broken clause of a run.
type Violation struct {
	Clause  string `json:"clause"`
	Detail  string `json:"detail"`
	Step    int    `json:"step"`
	Finding string `json:"finding,omitempty"` // id of a known-finding predicate that matched, set by the world
}

// Parked is a real goroutine waiting at a yield point or for a mutex.
type Parked struct {
	ch      chan struct{}
	Site    string
	G       string
	waitMu  interface{}
	blocked bool
	seq     int
}

// Run is one simulated execution.
type Run struct {
	Tape  *Tape
	Steps int
	Viol  *Violation

	Probes     map[string]int
	Faults     map[string]int
	Nontrivial bool
	States     map[uint64]struct{}
	SimTime    time.Duration
	Leaked     bool // blocked goroutines remained at the end of the bubble
	Sample     interface{}
	WantGC     bool        // the run allocated a lot: collect before the next one
	World      interface{} // world-private state, for Classify

	trace     []string
	traceCap  int
	traceHash uint64
	schedHash uint64

	mu       sync.Mutex
	parked   []*Parked
	seq      int
	rootG    uint64
	gname    map[uint64]string
	gauto    int
	siteSalt uint32
	siteDen  int // a site is enabled iff hash%4 < siteDen
	stopped  bool
	t0       time.Time
}

func goid() uint64 {
	var buf [64]byte
	n := runtime.Stack(buf[:], false)
	// "goroutine 123 ["
	s := buf[10:n]
	var id uint64
	for _, c := range s {
		if c < '0' || c > '9' {
			break
		}
		id = id*10 + uint64(c-'0')
	}
	return id
}

func hash64(s string) uint64 {
	h := fnv.New64a()
	h.Write([]byte(s))
	return h.Sum64()
}

// Logf appends to the event log. It never draws from the tape or a clock.
func (r *Run) Logf(format string, a ...interface{}) {
	s := fmt.Sprintf(format, a...)
	r.mu.Lock()
	r.traceHash = r.traceHash*1099511628211 ^ hash64(s)
	if len(r.trace) < r.traceCap {
		r.trace = append(r.trace, s)
	}
	r.mu.Unlock()
}

// Sched records one scheduling decision into the schedule fingerprint.
func (r *Run) Sched(kind, actor string) {
	r.schedHash = r.schedHash*1099511628211 ^ hash64(kind+"/"+actor)
}

func (r *Run) Trace() []string    { return r.trace }
func (r *Run) TraceHash() uint64  { return r.traceHash }
func (r *Run) SchedPrint() uint64 { return r.schedHash }
func (r *Run) Probe(name string)  { r.mu.Lock(); r.Probes[name]++; r.mu.Unlock() }
func (r *Run) Fault(kind string)  { r.mu.Lock(); r.Faults[kind]++; r.mu.Unlock() }
func (r *Run) State(h uint64)     { r.mu.Lock(); r.States[h] = struct{}{}; r.mu.Unlock() }
func (r *Run) Failed() bool       { r.mu.Lock(); defer r.mu.Unlock(); return r.Viol != nil }
func (r *Run) Now() time.Duration { return time.Since(r.t0) }

// Failf records the first violation of the run.
func (r *Run) Failf(clause, format string, a ...interface{}) {
	d := fmt.Sprintf(format, a...)
	r.mu.Lock()
	first := r.Viol == nil
	if first {
		r.Viol = &Violation{Clause: clause, Detail: d, Step: r.Steps}
	}
	r.mu.Unlock()
	if first {
		r.Logf("VIOLATION %s: %s", clause, d)
	}
}

func (r *Run) nameOf(g uint64) string {
	if n, ok := r.gname[g]; ok {
		return n
	}
	r.gauto++
	n := fmt.Sprintf("g%d", r.gauto)
	r.gname[g] = n
	return n
}

func (r *Run) siteOn(site string) bool {
	if r.siteDen >= 4 {
		return true
	}
	return int((hash64(site)^uint64(r.siteSalt)*0x9e3779b97f4a7c15)>>7)%4 < r.siteDen
}

// SetSiteDensity sets how many of the instrumented yield sites are active in
// this run: den/4 of them, selected by salt.
func (r *Run) SetSiteDensity(den int, salt uint32) { r.siteDen, r.siteSalt = den, salt }

func (r *Run) park(site string, waitMu interface{}) {
	g := goid()
	r.mu.Lock()
	p := &Parked{ch: make(chan struct{}), Site: site, G: r.nameOf(g), waitMu: waitMu, blocked: waitMu != nil, seq: r.seq}
	r.seq++
	r.parked = append(r.parked, p)
	r.mu.Unlock()
	<-p.ch
}

func (r *Run) yield(site string) {
	if r.stopped {
		return
	}
	if goid() == r.rootG {
		return
	}
	if !r.siteOn(site) {
		return
	}
	r.park(site, nil)
}

func (r *Run) lock(mu interface{}, try func() bool, site string) {
	if goid() == r.rootG {
		if !try() {
			panic("simkit: root goroutine would block on a mutex at " + site)
		}
		return
	}
	r.yield(site)
	for !try() {
		if r.stopped {
			time.Sleep(time.Millisecond)
			continue
		}
		r.park("lockwait:"+site, mu)
	}
}

func (r *Run) unlock(mu interface{}, unlock func(), site string) {
	unlock()
	r.mu.Lock()
	var wake []*Parked
	if r.siteDen == 0 {
		// free-running: lock waiters are woken by the unlock itself, in arrival order
		rest := r.parked[:0]
		for _, p := range r.parked {
			if p.waitMu == mu {
				wake = append(wake, p)
			} else {
				rest = append(rest, p)
			}
		}
		r.parked = rest
	} else {
		for _, p := range r.parked {
			if p.waitMu == mu {
				p.blocked = false
			}
		}
	}
	r.mu.Unlock()
	for _, p := range wake {
		close(p.ch)
	}
}

// Go starts a named task goroutine that begins parked.
func (r *Run) Go(name string, f func()) {
	ready := make(chan struct{})
	go func() {
		g := goid()
		r.mu.Lock()
		r.gname[g] = name
		r.mu.Unlock()
		close(ready)
		if !r.stopped {
			r.park("start:"+name, nil)
		}
		defer func() {
			if e := recover(); e != nil {
				r.Failf("panic", "task %s panicked: %v", name, e)
			}
		}()
		f()
	}()
	<-ready
}

// Settle waits until every goroutine of the run is durably blocked.
func (r *Run) Settle() { synctest.Wait() }

// Enabled returns the parked goroutines that can make progress, in a stable
// order (task name, then arrival).
func (r *Run) Enabled() []*Parked {
	r.mu.Lock()
	defer r.mu.Unlock()
	var out []*Parked
	for _, p := range r.parked {
		if !p.blocked {
			out = append(out, p)
		}
	}
	sort.SliceStable(out, func(i, j int) bool {
		if out[i].G != out[j].G {
			return out[i].G < out[j].G
		}
		return out[i].seq < out[j].seq
	})
	return out
}

// ParkedCount is the number of parked goroutines, including lock waiters.
func (r *Run) ParkedCount() int { r.mu.Lock(); defer r.mu.Unlock(); return len(r.parked) }

// Release lets one parked goroutine run until it blocks or parks again.
func (r *Run) Release(p *Parked) {
	r.mu.Lock()
	for i, q := range r.parked {
		if q == p {
			r.parked = append(r.parked[:i], r.parked[i+1:]...)
			break
		}
	}
	r.mu.Unlock()
	r.Steps++
	r.Sched("resume", p.G)
	r.Logf("%d resume %s @%s", r.Steps, p.G, p.Site)
	close(p.ch)
	synctest.Wait()
}

// Advance moves the fake clock by d (everything else is durably blocked or
// woken by timers on the way).
func (r *Run) Advance(d time.Duration) {
	r.Steps++
	r.Sched("advance", d.String())
	r.Logf("%d advance %v", r.Steps, d)
	verifhook.Sleep(d)
	synctest.Wait()
}

// Stop disables every yield point and releases all parked goroutines so the
// code under test runs freely from here (used to drain at the end of a run).
func (r *Run) Stop() {
	r.mu.Lock()
	r.stopped = true
	ps := r.parked
	r.parked = nil
	r.mu.Unlock()
	for _, p := range ps {
		close(p.ch)
	}
}

var execMu sync.Mutex

// Execute runs fn as one simulated execution inside a synctest bubble.
func Execute(t *testing.T, tape *Tape, traceCap int, fn func(r *Run)) *Run {
	execMu.Lock()
	defer execMu.Unlock()
	resetProcessState()
	r := &Run{Tape: tape, Probes: map[string]int{}, Faults: map[string]int{}, States: map[uint64]struct{}{},
		gname: map[uint64]string{}, traceCap: traceCap, siteDen: 4, traceHash: 14695981039346656037, schedHash: 14695981039346656037}
	verifhook.YieldFn = r.yield
	verifhook.LockFn = r.lock
	verifhook.UnlockFn = r.unlock
	verifhook.PermFn = func(n int, site string) []int { return r.Tape.Perm(n) }
	var jit int64
	verifhook.JitterFn = func() time.Duration { jit++; return time.Duration(jit) }
	verifhook.SelOrderFn = func(n int, site string) []int {
		if r.stopped {
			return nil
		}
		return r.Tape.Perm(n)
	}
	old := debug.SetGCPercent(-1)
	defer func() {
		verifhook.YieldFn = nil
		verifhook.LockFn = nil
		verifhook.UnlockFn = nil
		verifhook.PermFn = nil
		verifhook.SelOrderFn = nil
		verifhook.JitterFn = nil
		LogHook = nil
		verifhook.IntnFn = nil
		verifhook.DialFn = nil
		verifhook.RankFn = nil
		debug.SetGCPercent(old)
	}()
	func() {
		defer func() {
			if e := recover(); e != nil {
				s := fmt.Sprint(e)
				if strings.Contains(s, "blocked goroutines remain") {
					r.Leaked = true
					if f := os.Getenv("VERIF_LEAKDUMP"); f != "" {
						// debugging aid: which goroutines stayed behind
						buf := make([]byte, 1<<22)
						buf = buf[:runtime.Stack(buf, true)]
						os.WriteFile(f, append([]byte(s+"\n\n"), buf...), 0o644)
					}
					return
				}
				r.Failf("harness-panic", "%v", e)
			}
		}()
		synctest.Test(t, func(t *testing.T) {
			r.rootG = goid()
			r.t0 = time.Now()
			defer func() {
				if e := recover(); e != nil {
					buf := make([]byte, 4096)
					buf = buf[:runtime.Stack(buf, false)]
					r.Failf("root-panic", "%v\n%s", e, buf)
				}
				r.SimTime = time.Since(r.t0)
				r.Stop()
			}()
			fn(r)
		})
	}()
	return r
}

// Pause parks the calling task at a harness-level point (always enabled).
func Pause(r *Run, site string) {
	if r.stopped {
		return
	}
	r.park(site, nil)
}

// PauseAs is Pause for a goroutine the harness did not start itself: the first time it parks it gets the
// given name (instead of a number in order of arrival, which depends on how the Go scheduler happened to
// order goroutines that became runnable together).
func PauseAs(r *Run, name, site string) {
	if r.stopped {
		return
	}
	g := goid()
	r.mu.Lock()
	if _, ok := r.gname[g]; !ok {
		r.gname[g] = name
	}
	r.mu.Unlock()
	r.park(site, nil)
}

// Hash is the FNV-1a hash used for state fingerprints.
func Hash(s string) uint64 { return hash64(s) }

// Jittered time helpers for harness code (same rule as instrumented code).
func Sleep(d time.Duration)                  { verifhook.Sleep(d) }
func After(d time.Duration) <-chan time.Time { return verifhook.After(d) }
func WithTimeout(ctx context.Context, d time.Duration) (context.Context, context.CancelFunc) {
	return verifhook.WithTimeout(ctx, d)
}

// FreeRun disables all yield sites for the rest of the run and releases every
// parked goroutine (deterministically, in stable order), so the code under
// test proceeds without scheduler intervention. Lock waiters are released by
// the unlock that they wait for.
func (r *Run) FreeRun() {
	r.siteDen = 0
	for i := 0; i < 20000; i++ {
		en := r.Enabled()
		if len(en) == 0 {
			return
		}
		// every parked goroutine gets a turn, so tasks that wait for each other
		// at harness pauses cannot starve one another
		for _, p := range en {
			r.Release(p)
		}
	}
	panic("simkit: FreeRun did not quiesce (a task keeps parking at a harness pause)")
}

// CurrentTask is the name of the calling goroutine ("" for unknown ones).
func (r *Run) CurrentTask() string {
	g := goid()
	r.mu.Lock()
	defer r.mu.Unlock()
	return r.gname[g]
}

// PauseYields switches every yield site off (for reference computations made
// by a task itself) and returns the previous density for ResumeYields.
func (r *Run) PauseYields() int { d := r.siteDen; r.siteDen = 0; return d }

// ResumeYields restores the density returned by PauseYields.
func (r *Run) ResumeYields(d int) { r.siteDen = d }
