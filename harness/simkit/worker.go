package simkit

import (
	"encoding/json"
	"fmt"
	"os"
	"runtime"
	"runtime/debug"
	"sort"
	"testing"
	"time"
)

// World is one property's simulated workload plus oracle.
type World struct {
	Property string
	// Run executes one simulated run inside the bubble. strict selects the
	// partition of the workload in which no known finding can occur.
	Run func(r *Run)
	// Classify may set r.Viol.Finding to the id of a known-finding predicate
	// that the (minimised) violating run satisfies.
	Classify func(r *Run)
	// TraceCap bounds the recorded event log per run.
	TraceCap int
	// MinBudget bounds re-executions during minimisation.
	MinBudget int
}

type Job struct {
	Property string            `json:"property"`
	Tier     string            `json:"tier"`
	Seed     uint64            `json:"seed"`
	First    uint64            `json:"first"`
	Count    uint64            `json:"count"`
	Stride   uint64            `json:"stride"`
	WallS    float64           `json:"wall_s"`
	Out      string            `json:"out"`
	Replay   []uint32          `json:"replay,omitempty"`
	IsReplay bool              `json:"is_replay,omitempty"`
	SelfTest bool              `json:"selftest,omitempty"`
	MaxRuns  uint64            `json:"max_runs_per_proc,omitempty"`
	Known    []string          `json:"known,omitempty"` // known finding ids (listed, not fixed)
	Params   map[string]string `json:"params,omitempty"`
}

type ViolationOut struct {
	Index         uint64      `json:"index"`
	RunSeed       uint64      `json:"run_seed"`
	Clause        string      `json:"clause"`
	Detail        string      `json:"detail"`
	Step          int         `json:"step"`
	Finding       string      `json:"finding,omitempty"`
	Tape          []uint32    `json:"tape"`
	OrigLen       int         `json:"orig_tape_len"`
	Deterministic bool        `json:"deterministic"`
	Trace         []string    `json:"trace"`
	Sample        interface{} `json:"sample,omitempty"`
}

type Result struct {
	Property    string            `json:"property"`
	Runs        uint64            `json:"runs"`
	NextIndex   uint64            `json:"next_index"`
	Steps       uint64            `json:"steps"`
	SimTimeS    float64           `json:"sim_time_s"`
	WallS       float64           `json:"wall_s"`
	Faults      map[string]int    `json:"faults"`
	Probes      map[string]int    `json:"probes"`
	Nontrivial  []string          `json:"nontrivial"` // distinct schedule fingerprints of non-trivial runs
	States      []string          `json:"states"`     // distinct oracle state hashes (capped)
	Samples     []interface{}     `json:"samples"`
	Violations  []ViolationOut    `json:"violations"`
	KnownSeen   map[string]int    `json:"known_seen"`
	Leaked      uint64            `json:"leaked_runs"`
	NonDet      int               `json:"nondeterministic_replays"`
	TraceHashes map[string]string `json:"trace_hashes,omitempty"`
	Done        bool              `json:"done"`
}

// Params of the current job, readable by worlds (e.g. forced configuration).
var Params map[string]string

func hex(h uint64) string { return fmt.Sprintf("%016x", h) }

// WorkerMain runs the job described by $VERIF_JOB.
func WorkerMain(t *testing.T, worlds map[string]*World) {
	path := os.Getenv("VERIF_JOB")
	if path == "" {
		t.Skip("VERIF_JOB not set")
	}
	runtime.GOMAXPROCS(1)
	b, err := os.ReadFile(path)
	if err != nil {
		fmt.Fprintln(os.Stderr, "worker:", err)
		os.Exit(2)
	}
	var job Job
	if err := json.Unmarshal(b, &job); err != nil {
		fmt.Fprintln(os.Stderr, "worker: job:", err)
		os.Exit(2)
	}
	w := worlds[job.Property]
	if w == nil {
		fmt.Fprintln(os.Stderr, "worker: no world for", job.Property)
		os.Exit(2)
	}
	Params = job.Params
	if w.TraceCap == 0 {
		w.TraceCap = 3000
	}
	if w.MinBudget == 0 {
		w.MinBudget = 400
	}
	if job.Stride == 0 {
		job.Stride = 1
	}
	known := map[string]bool{}
	for _, k := range job.Known {
		known[k] = true
	}
	res := &Result{Property: job.Property, Faults: map[string]int{}, Probes: map[string]int{}, KnownSeen: map[string]int{}}
	nontriv := map[uint64]struct{}{}
	states := map[uint64]struct{}{}
	write := func() {
		res.Nontrivial = res.Nontrivial[:0]
		for h := range nontriv {
			res.Nontrivial = append(res.Nontrivial, hex(h))
		}
		sort.Strings(res.Nontrivial)
		res.States = res.States[:0]
		for h := range states {
			res.States = append(res.States, hex(h))
		}
		sort.Strings(res.States)
		ob, _ := json.Marshal(res)
		tmp := job.Out + ".tmp"
		os.WriteFile(tmp, ob, 0o644)
		os.Rename(tmp, job.Out)
	}
	exec := func(tape *Tape) *Run {
		r := Execute(t, tape, w.TraceCap, w.Run)
		if r.WantGC {
			runtime.GC()
		}
		if r.Viol != nil && w.Classify != nil {
			w.Classify(r)
		}
		return r
	}
	// warm-up run (discarded): first-use initialisation inside the runtime and
	// the libraries must not be part of a recorded execution
	debug.SetGCPercent(-1)
	// the collector stays off during a run unless the heap outgrows this soft limit (runs that move tens of MiB)
	debug.SetMemoryLimit(3 << 30)
	exec(NewTape(Mix(1, "warmup", 0)))
	runtime.GC()
	start := time.Now()
	if job.IsReplay {
		r := exec(ReplayTape(job.Replay))
		res.Runs = 1
		res.Steps = uint64(r.Steps)
		if r.Viol != nil {
			res.Violations = append(res.Violations, ViolationOut{Clause: r.Viol.Clause, Detail: r.Viol.Detail, Step: r.Viol.Step,
				Finding: r.Viol.Finding, Tape: r.Tape.Recorded(), Deterministic: true, Trace: r.Trace(), Sample: r.Sample})
		} else {
			res.Samples = append(res.Samples, map[string]interface{}{"trace": r.Trace(), "sample": r.Sample})
		}
		res.Done = true
		res.WallS = time.Since(start).Seconds()
		write()
		return
	}
	if job.SelfTest {
		res.TraceHashes = map[string]string{}
	}
	minimised := map[string]bool{}
	idx := job.First
	var n uint64
	for ; n < job.Count; n++ {
		if job.WallS > 0 && time.Since(start).Seconds() > job.WallS {
			break
		}
		if job.MaxRuns > 0 && n >= job.MaxRuns {
			break
		}
		runSeed := Mix(job.Seed, job.Property, idx)
		os.WriteFile(job.Out+".cur", []byte(fmt.Sprint(idx)), 0o644)
		r := exec(NewTape(runSeed))
		res.Runs++
		res.Steps += uint64(r.Steps)
		res.SimTimeS += r.SimTime.Seconds()
		for k, v := range r.Faults {
			res.Faults[k] += v
		}
		for k, v := range r.Probes {
			res.Probes[k] += v
		}
		if r.Leaked {
			res.Leaked++
		}
		if r.Nontrivial && len(nontriv) < 400000 {
			nontriv[r.SchedPrint()] = struct{}{}
		}
		if len(states) < 400000 {
			for h := range r.States {
				states[h] = struct{}{}
			}
		}
		if r.Sample != nil && len(res.Samples) < 3 && (r.Nontrivial || n < 2) {
			res.Samples = append(res.Samples, r.Sample)
		}
		if job.SelfTest {
			res.TraceHashes[fmt.Sprint(idx)] = hex(r.TraceHash()) + ":" + fmt.Sprint(r.Steps)
			if d := job.Params["dump_dir"]; d != "" {
				var sb []byte
				for _, l := range r.Trace() {
					sb = append(sb, l...)
					sb = append(sb, '\n')
				}
				os.WriteFile(fmt.Sprintf("%s/trace-%d-%d.txt", d, os.Getpid(), idx), sb, 0o644)
			}
		}
		if r.Viol != nil {
			key := r.Viol.Clause + "|" + r.Viol.Finding
			isKnown := (r.Viol.Finding != "" && known[r.Viol.Finding]) || known["*"]
			if isKnown {
				res.KnownSeen[r.Viol.Finding]++
			}
			if !minimised[key] {
				minimised[key] = true
				orig := r.Tape.Recorded()
				clause, finding := r.Viol.Clause, r.Viol.Finding
				// confirm determinism
				r2 := exec(ReplayTape(orig))
				det := r2.Viol != nil && r2.Viol.Clause == clause
				best := r
				tape := orig
				if det {
					tape = Minimize(orig, w.MinBudget, func(c []uint32) bool {
						rr := exec(ReplayTape(c))
						return rr.Viol != nil && rr.Viol.Clause == clause && rr.Viol.Finding == finding
					})
					rb := exec(ReplayTape(tape))
					if rb.Viol != nil && rb.Viol.Clause == clause {
						best = rb
					} else {
						tape = orig
					}
				} else {
					res.NonDet++
				}
				res.Violations = append(res.Violations, ViolationOut{Index: idx, RunSeed: runSeed, Clause: best.Viol.Clause, Detail: best.Viol.Detail,
					Step: best.Viol.Step, Finding: best.Viol.Finding, Tape: tape, OrigLen: len(orig), Deterministic: det, Trace: best.Trace(), Sample: best.Sample})
			}
			if !isKnown {
				idx += job.Stride
				n++
				break // an unlisted violation ends this worker
			}
		}
		idx += job.Stride
		if n%64 == 63 {
			runtime.GC()
			res.NextIndex = idx
			res.WallS = time.Since(start).Seconds()
			write()
		}
	}
	res.NextIndex = idx
	res.Done = true
	res.WallS = time.Since(start).Seconds()
	write()
}
