// Package simkit is the simulation kernel shared by every /verif world:
// one choice tape decides everything, real goroutines are parked at
// instrumented yield points and released one at a time from inside a
// testing/synctest bubble, and failing tapes are minimised with ddmin.
package simkit

// Tape is the single source of every decision of a run. On a fresh run the
// entries come lazily from a splitmix64 stream and are recorded; on replay
// they are read back; past the end every choice is 0, which every menu in the
// harness defines as the plain option.
type Tape struct {
	Vals   []uint32
	pos    int
	state  uint64
	replay bool
}

func splitmix(x *uint64) uint64 {
	*x += 0x9e3779b97f4a7c15
	z := *x
	z = (z ^ (z >> 30)) * 0xbf58476d1ce4e5b9
	z = (z ^ (z >> 27)) * 0x94d049bb133111eb
	return z ^ (z >> 31)
}

// Mix derives a per-run seed from the batch seed, a property tag and an index.
func Mix(seed uint64, tag string, i uint64) uint64 {
	x := seed
	h := splitmix(&x)
	for _, c := range []byte(tag) {
		x = h ^ uint64(c)
		h = splitmix(&x)
	}
	x = h ^ i
	return splitmix(&x)
}

func NewTape(seed uint64) *Tape { return &Tape{state: seed} }

func ReplayTape(vals []uint32) *Tape {
	return &Tape{Vals: append([]uint32(nil), vals...), replay: true}
}

func (t *Tape) next() uint32 {
	if t.pos < len(t.Vals) {
		v := t.Vals[t.pos]
		t.pos++
		return v
	}
	if t.replay {
		t.pos++
		return 0
	}
	v := uint32(splitmix(&t.state) >> 33) // 31 bits
	t.Vals = append(t.Vals, v)
	t.pos++
	return v
}

// Choose returns a value in [0,n). n<=1 consumes nothing.
func (t *Tape) Choose(n int) int {
	if n <= 1 {
		return 0
	}
	return int(t.next() % uint32(n))
}

// Chance is true with probability num/den; a zero entry is always false.
func (t *Tape) Chance(num, den int) bool {
	if num <= 0 {
		return false
	}
	return t.Choose(den) >= den-num
}

// Range returns a value in [lo,hi].
func (t *Tape) Range(lo, hi int) int {
	if hi <= lo {
		return lo
	}
	return lo + t.Choose(hi-lo+1)
}

// Perm returns a permutation of n drawn from the tape (identity on zeros).
func (t *Tape) Perm(n int) []int {
	p := make([]int, n)
	for i := range p {
		p[i] = i
	}
	for i := 0; i < n-1; i++ {
		j := i + t.Choose(n-i)
		p[i], p[j] = p[j], p[i]
	}
	return p
}

// Used is the number of entries consumed so far.
func (t *Tape) Used() int { return t.pos }

// Recorded returns the consumed prefix of the tape.
func (t *Tape) Recorded() []uint32 {
	n := t.pos
	if n > len(t.Vals) {
		n = len(t.Vals)
	}
	return append([]uint32(nil), t.Vals[:n]...)
}
