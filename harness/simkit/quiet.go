package simkit

import (
	"fmt"

	"github.com/XiaoMi/Gaea/log"
	"github.com/google/uuid"
)

// nopLogger discards everything without a system call (a write(2) inside a
// step would let the runtime hand the P to another goroutine and perturb the
// schedule).
type nopLogger struct{}

// LogHook, when set, sees warning/fatal messages of the code under test (no I/O happens).
var LogHook func(level, msg string)

func hook(level, format string, a []interface{}) {
	if h := LogHook; h != nil {
		h(level, fmt.Sprintf(format, a...))
	}
}

func (nopLogger) SetLevel(name, level string) error                    { return nil }
func (nopLogger) Debug(format string, a ...interface{}) error          { return nil }
func (nopLogger) Trace(format string, a ...interface{}) error          { return nil }
func (nopLogger) Notice(format string, a ...interface{}) error         { return nil }
func (nopLogger) Warn(format string, a ...interface{}) error           { hook("warn", format, a); return nil }
func (nopLogger) Fatal(format string, a ...interface{}) error          { hook("fatal", format, a); return nil }
func (nopLogger) Debugx(logID, format string, a ...interface{}) error  { return nil }
func (nopLogger) Tracex(logID, format string, a ...interface{}) error  { return nil }
func (nopLogger) Noticex(logID, format string, a ...interface{}) error { return nil }
func (nopLogger) Warnx(logID, format string, a ...interface{}) error   { return nil }
func (nopLogger) Fatalx(logID, format string, a ...interface{}) error  { return nil }
func (nopLogger) Close()                                               {}
func (nopLogger) Dropped(i int) uint64                                 { return 0 }

type detRand struct{ x uint64 }

func (d *detRand) Read(p []byte) (int, error) {
	for i := range p {
		p[i] = byte(splitmix(&d.x))
	}
	return len(p), nil
}

var theRand = &detRand{}

func init() {
	log.SetGlobalLogger(nopLogger{})
	uuid.SetRand(theRand)
}

// resetProcessState puts process-wide deterministic sources back to a fixed
// point at the start of every run.
func resetProcessState() { theRand.x = 1 }
