module verif/harness

go 1.26.8

godebug randseednop=0

require (
	github.com/XiaoMi/Gaea v0.0.0
	github.com/anishathalye/porcupine v1.3.0
	github.com/google/uuid v1.6.0
)

require (
	github.com/coreos/etcd v3.3.13+incompatible // indirect
	github.com/coreos/go-semver v0.2.0 // indirect
	github.com/cznic/mathutil v0.0.0-20181122101859-297441e03548 // indirect
	github.com/davecgh/go-spew v1.1.1 // indirect
	github.com/go-ini/ini v1.42.0 // indirect
	github.com/gogo/protobuf v1.3.2 // indirect
	github.com/golang/mock v1.4.4 // indirect
	github.com/golang/protobuf v1.5.2 // indirect
	github.com/hashicorp/go-version v1.6.0 // indirect
	github.com/json-iterator/go v1.1.11 // indirect
	github.com/lestrrat-go/file-rotatelogs v2.4.0+incompatible // indirect
	github.com/lestrrat-go/strftime v1.0.6 // indirect
	github.com/modern-go/concurrent v0.0.0-20180306012644-bacd9c7ef1dd // indirect
	github.com/modern-go/reflect2 v1.0.1 // indirect
	github.com/pingcap/errors v0.11.1 // indirect
	github.com/pingcap/tipb v0.0.0-20190226124958-833c2ffd2fe7 // indirect
	github.com/pkg/errors v0.9.1 // indirect
	github.com/pmezard/go-difflib v1.0.0 // indirect
	github.com/remyoudompheng/bigfft v0.0.0-20190321074620-2f0d2b0e0001 // indirect
	github.com/shopspring/decimal v1.3.1 // indirect
	github.com/stretchr/objx v0.5.0 // indirect
	github.com/stretchr/testify v1.8.1 // indirect
	go.uber.org/atomic v1.4.0 // indirect
	go.uber.org/multierr v1.1.0 // indirect
	go.uber.org/zap v1.10.0 // indirect
	golang.org/x/net v0.0.0-20220722155237-a158d28d115b // indirect
	golang.org/x/sys v0.0.0-20220722155257-8c9f86f7a55f // indirect
	golang.org/x/text v0.3.7 // indirect
	google.golang.org/genproto v0.0.0-20180817151627-c66870c02cf8 // indirect
	google.golang.org/grpc v1.21.0 // indirect
	google.golang.org/protobuf v1.28.0 // indirect
	gopkg.in/yaml.v3 v3.0.1 // indirect
)

replace github.com/XiaoMi/Gaea => /repo

replace github.com/dgrijalva/jwt-go => github.com/golang-jwt/jwt v3.2.2-0.20210713063142-860640e8862d+incompatible
