module verif/harness

go 1.26.8

godebug randseednop=0

require (
	github.com/XiaoMi/Gaea v0.0.0
	github.com/anishathalye/porcupine v1.3.0
	github.com/google/uuid v1.6.0
)

require (
	github.com/beorn7/perks v1.0.1 // indirect
	github.com/cespare/xxhash/v2 v2.1.1 // indirect
	github.com/coreos/etcd v3.3.13+incompatible // indirect
	github.com/coreos/go-semver v0.2.0 // indirect
	github.com/cznic/mathutil v0.0.0-20181122101859-297441e03548 // indirect
	github.com/davecgh/go-spew v1.1.1 // indirect
	github.com/emirpasic/gods v1.12.0 // indirect
	github.com/gin-contrib/gzip v0.0.1 // indirect
	github.com/gin-contrib/sse v0.1.0 // indirect
	github.com/gin-gonic/gin v1.7.7 // indirect
	github.com/go-ini/ini v1.42.0 // indirect
	github.com/go-playground/locales v0.13.0 // indirect
	github.com/go-playground/universal-translator v0.17.0 // indirect
	github.com/go-playground/validator/v10 v10.8.0 // indirect
	github.com/gogo/protobuf v1.3.2 // indirect
	github.com/golang/mock v1.4.4 // indirect
	github.com/golang/protobuf v1.5.2 // indirect
	github.com/hashicorp/go-version v1.6.0 // indirect
	github.com/json-iterator/go v1.1.11 // indirect
	github.com/leodido/go-urn v1.2.1 // indirect
	github.com/lestrrat-go/file-rotatelogs v2.4.0+incompatible // indirect
	github.com/lestrrat-go/strftime v1.0.6 // indirect
	github.com/mattn/go-isatty v0.0.13 // indirect
	github.com/matttproud/golang_protobuf_extensions v1.0.1 // indirect
	github.com/modern-go/concurrent v0.0.0-20180306012644-bacd9c7ef1dd // indirect
	github.com/modern-go/reflect2 v1.0.1 // indirect
	github.com/pingcap/errors v0.11.1 // indirect
	github.com/pingcap/tipb v0.0.0-20190226124958-833c2ffd2fe7 // indirect
	github.com/pkg/errors v0.9.1 // indirect
	github.com/pmezard/go-difflib v1.0.0 // indirect
	github.com/prometheus/client_golang v1.11.1 // indirect
	github.com/prometheus/client_model v0.2.0 // indirect
	github.com/prometheus/common v0.26.0 // indirect
	github.com/prometheus/procfs v0.6.0 // indirect
	github.com/remyoudompheng/bigfft v0.0.0-20190321074620-2f0d2b0e0001 // indirect
	github.com/shirou/gopsutil v2.20.9+incompatible // indirect
	github.com/shopspring/decimal v1.3.1 // indirect
	github.com/stretchr/objx v0.5.0 // indirect
	github.com/stretchr/testify v1.8.1 // indirect
	github.com/ugorji/go/codec v1.1.7 // indirect
	go.uber.org/atomic v1.4.0 // indirect
	go.uber.org/multierr v1.1.0 // indirect
	go.uber.org/zap v1.10.0 // indirect
	golang.org/x/crypto v0.0.0-20210921155107-089bfa567519 // indirect
	golang.org/x/net v0.0.0-20220722155237-a158d28d115b // indirect
	golang.org/x/sys v0.0.0-20220722155257-8c9f86f7a55f // indirect
	golang.org/x/text v0.3.7 // indirect
	golang.org/x/time v0.0.0-20181108054448-85acf8d2951c // indirect
	google.golang.org/genproto v0.0.0-20180817151627-c66870c02cf8 // indirect
	google.golang.org/grpc v1.21.0 // indirect
	google.golang.org/protobuf v1.28.0 // indirect
	gopkg.in/yaml.v2 v2.4.0 // indirect
	gopkg.in/yaml.v3 v3.0.1 // indirect
)

replace github.com/XiaoMi/Gaea => /repo

replace github.com/dgrijalva/jwt-go => github.com/golang-jwt/jwt v3.2.2-0.20210713063142-860640e8862d+incompatible
