module verif/harness

go 1.26.8

godebug randseednop=0

require (
	github.com/XiaoMi/Gaea v0.0.0
	github.com/anishathalye/porcupine v1.3.0
	github.com/google/uuid v1.6.0
)

require (
	github.com/cznic/mathutil v0.0.0-20181122101859-297441e03548 // indirect
	github.com/golang/protobuf v1.5.2 // indirect
	github.com/hashicorp/go-version v1.6.0 // indirect
	github.com/pingcap/errors v0.11.1 // indirect
	github.com/pingcap/tipb v0.0.0-20190226124958-833c2ffd2fe7 // indirect
	github.com/remyoudompheng/bigfft v0.0.0-20190321074620-2f0d2b0e0001 // indirect
	github.com/shopspring/decimal v1.3.1 // indirect
	google.golang.org/protobuf v1.28.0 // indirect
)

replace github.com/XiaoMi/Gaea => /repo

replace github.com/dgrijalva/jwt-go => github.com/golang-jwt/jwt v3.2.2-0.20210713063142-860640e8862d+incompatible
