// Package myproto is an independent, minimal implementation of the MySQL
// client/server wire protocol used by the simulated backends (server side)
// and the simulated clients (client side) of the W1 world. It shares no code
// with the repository's mysql package.
package myproto

import (
	"bufio"
	"bytes"
	"crypto/sha1"
	"crypto/sha256"
	"encoding/binary"
	"errors"
	"fmt"
	"io"
	"math"
	"net"
)

const MaxFrame = 1<<24 - 1

// capability flags
const (
	CLongPassword     = 1 << 0
	CFoundRows        = 1 << 1
	CLongFlag         = 1 << 2
	CConnectWithDB    = 1 << 3
	CProtocol41       = 1 << 9
	CTransactions     = 1 << 13
	CSecureConnection = 1 << 15
	CMultiStatements  = 1 << 16
	CMultiResults     = 1 << 17
	CPSMultiResults   = 1 << 18
	CPluginAuth       = 1 << 19
	CDeprecateEOF     = 1 << 24
)

// status flags
const (
	SInTrans      = 0x0001
	SAutocommit   = 0x0002
	SMoreResults  = 0x0008
)

// commands
const (
	ComQuit = 1 + iota
	ComInitDB
	ComQuery
	ComFieldList
	_
	_
	_
	_
	_
	_
	_
	_
	_
	ComPing
)

const (
	ComStmtPrepare      = 0x16
	ComStmtExecute      = 0x17
	ComStmtSendLongData = 0x18
	ComStmtClose        = 0x19
	ComStmtReset        = 0x1a
)

type PacketConn struct {
	C   net.Conn
	br  *bufio.Reader
	Seq byte
}

func NewPacketConn(c net.Conn) *PacketConn {
	return &PacketConn{C: c, br: bufio.NewReaderSize(c, 16*1024)}
}

func (p *PacketConn) readFrame() ([]byte, error) {
	var h [4]byte
	if _, err := io.ReadFull(p.br, h[:]); err != nil {
		return nil, err
	}
	n := int(h[0]) | int(h[1])<<8 | int(h[2])<<16
	if h[3] != p.Seq {
		return nil, fmt.Errorf("myproto: sequence %d, expected %d", h[3], p.Seq)
	}
	p.Seq++
	b := make([]byte, n)
	if _, err := io.ReadFull(p.br, b); err != nil {
		return nil, err
	}
	return b, nil
}

// ReadPacket reads one logical packet (reassembling 16 MiB frames).
func (p *PacketConn) ReadPacket() ([]byte, error) {
	b, err := p.readFrame()
	if err != nil {
		return nil, err
	}
	if len(b) < MaxFrame {
		return b, nil
	}
	for {
		nb, err := p.readFrame()
		if err != nil {
			return nil, err
		}
		b = append(b, nb...)
		if len(nb) < MaxFrame {
			return b, nil
		}
	}
}

// WritePacket writes one logical packet.
func (p *PacketConn) WritePacket(data []byte) error {
	for {
		n := len(data)
		if n > MaxFrame {
			n = MaxFrame
		}
		buf := make([]byte, 4+n)
		buf[0], buf[1], buf[2], buf[3] = byte(n), byte(n>>8), byte(n>>16), p.Seq
		copy(buf[4:], data[:n])
		p.Seq++
		if _, err := p.C.Write(buf); err != nil {
			return err
		}
		data = data[n:]
		if n < MaxFrame {
			return nil
		}
	}
}

// ---- length-encoded values ---------------------------------------------------

func AppendLenInt(b []byte, v uint64) []byte {
	switch {
	case v < 251:
		return append(b, byte(v))
	case v < 1<<16:
		return append(b, 0xfc, byte(v), byte(v>>8))
	case v < 1<<24:
		return append(b, 0xfd, byte(v), byte(v>>8), byte(v>>16))
	}
	return append(b, 0xfe, byte(v), byte(v>>8), byte(v>>16), byte(v>>24), byte(v>>32), byte(v>>40), byte(v>>48), byte(v>>56))
}

func AppendLenStr(b []byte, s []byte) []byte { return append(AppendLenInt(b, uint64(len(s))), s...) }

// ReadLenInt returns value, isNull, bytes consumed (0 = malformed).
func ReadLenInt(b []byte) (uint64, bool, int) {
	if len(b) == 0 {
		return 0, false, 0
	}
	switch b[0] {
	case 0xfb:
		return 0, true, 1
	case 0xfc:
		if len(b) < 3 {
			return 0, false, 0
		}
		return uint64(b[1]) | uint64(b[2])<<8, false, 3
	case 0xfd:
		if len(b) < 4 {
			return 0, false, 0
		}
		return uint64(b[1]) | uint64(b[2])<<8 | uint64(b[3])<<16, false, 4
	case 0xfe:
		if len(b) < 9 {
			return 0, false, 0
		}
		return binary.LittleEndian.Uint64(b[1:9]), false, 9
	}
	return uint64(b[0]), false, 1
}

func ReadLenStr(b []byte) (s []byte, isNull bool, n int) {
	l, null, k := ReadLenInt(b)
	if k == 0 {
		return nil, false, 0
	}
	if null {
		return nil, true, 1
	}
	if uint64(len(b)-k) < l {
		return nil, false, 0
	}
	return b[k : k+int(l)], false, k + int(l)
}

// ---- generic packets ---------------------------------------------------------

func OK(affected, insertID uint64, status, warnings uint16, info string) []byte {
	b := []byte{0}
	b = AppendLenInt(b, affected)
	b = AppendLenInt(b, insertID)
	b = append(b, byte(status), byte(status>>8), byte(warnings), byte(warnings>>8))
	return append(b, info...)
}

func EOF(status, warnings uint16) []byte {
	return []byte{0xfe, byte(warnings), byte(warnings >> 8), byte(status), byte(status >> 8)}
}

func ERR(code uint16, state, msg string) []byte {
	b := []byte{0xff, byte(code), byte(code >> 8), '#'}
	if len(state) != 5 {
		state = "HY000"
	}
	b = append(b, state...)
	return append(b, msg...)
}

type ServerError struct {
	Code  uint16
	State string
	Msg   string
}

func (e *ServerError) Error() string { return fmt.Sprintf("ERROR %d (%s): %s", e.Code, e.State, e.Msg) }

func ParseERR(b []byte) *ServerError {
	e := &ServerError{}
	if len(b) < 3 {
		e.Msg = "malformed error packet"
		return e
	}
	e.Code = uint16(b[1]) | uint16(b[2])<<8
	rest := b[3:]
	if len(rest) >= 6 && rest[0] == '#' {
		e.State = string(rest[1:6])
		rest = rest[6:]
	}
	e.Msg = string(rest)
	return e
}

type OKInfo struct {
	Affected, InsertID uint64
	Status, Warnings   uint16
	Info               string
}

func ParseOK(b []byte) (OKInfo, error) {
	var o OKInfo
	if len(b) < 1 {
		return o, errors.New("empty OK")
	}
	pos := 1
	v, _, n := ReadLenInt(b[pos:])
	if n == 0 {
		return o, errors.New("malformed OK (affected rows)")
	}
	o.Affected = v
	pos += n
	v, _, n = ReadLenInt(b[pos:])
	if n == 0 {
		return o, errors.New("malformed OK (insert id)")
	}
	o.InsertID = v
	pos += n
	if len(b) < pos+4 {
		return o, errors.New("malformed OK (status)")
	}
	o.Status = uint16(b[pos]) | uint16(b[pos+1])<<8
	o.Warnings = uint16(b[pos+2]) | uint16(b[pos+3])<<8
	o.Info = string(b[pos+4:])
	return o, nil
}

// ---- column definitions ------------------------------------------------------

// column types
const (
	TDecimal    = 0x00
	TTiny       = 0x01
	TShort      = 0x02
	TLong       = 0x03
	TFloat      = 0x04
	TDouble     = 0x05
	TNull       = 0x06
	TTimestamp  = 0x07
	TLongLong   = 0x08
	TInt24      = 0x09
	TDate       = 0x0a
	TTime       = 0x0b
	TDatetime   = 0x0c
	TYear       = 0x0d
	TVarchar    = 0x0f
	TBit        = 0x10
	TJSON       = 0xf5
	TNewDecimal = 0xf6
	TEnum       = 0xf7
	TSet        = 0xf8
	TTinyBlob   = 0xf9
	TMediumBlob = 0xfa
	TLongBlob   = 0xfb
	TBlob       = 0xfc
	TVarString  = 0xfd
	TString     = 0xfe
	TGeometry   = 0xff
)

const (
	FNotNull  = 1
	FUnsigned = 32
	FBinary   = 128
)

type Column struct {
	Schema, Table, OrgTable, Name, OrgName string
	Charset                                uint16
	Length                                 uint32
	Type                                   byte
	Flags                                  uint16
	Decimals                               byte
}

func (c Column) Encode() []byte {
	var b []byte
	b = AppendLenStr(b, []byte("def"))
	b = AppendLenStr(b, []byte(c.Schema))
	b = AppendLenStr(b, []byte(c.Table))
	b = AppendLenStr(b, []byte(c.OrgTable))
	b = AppendLenStr(b, []byte(c.Name))
	b = AppendLenStr(b, []byte(c.OrgName))
	b = append(b, 0x0c)
	cs := c.Charset
	if cs == 0 {
		cs = 45
	}
	b = append(b, byte(cs), byte(cs>>8))
	b = append(b, byte(c.Length), byte(c.Length>>8), byte(c.Length>>16), byte(c.Length>>24))
	b = append(b, c.Type, byte(c.Flags), byte(c.Flags>>8), c.Decimals, 0, 0)
	return b
}

func ParseColumn(b []byte) (Column, error) {
	var c Column
	pos := 0
	next := func() ([]byte, bool) {
		s, _, n := ReadLenStr(b[pos:])
		if n == 0 {
			return nil, false
		}
		pos += n
		return s, true
	}
	fields := make([][]byte, 6)
	for i := range fields {
		s, ok := next()
		if !ok {
			return c, errors.New("malformed column definition")
		}
		fields[i] = s
	}
	c.Schema, c.Table, c.OrgTable, c.Name, c.OrgName = string(fields[1]), string(fields[2]), string(fields[3]), string(fields[4]), string(fields[5])
	if len(b) < pos+1+10 {
		return c, errors.New("short column definition")
	}
	pos++ // 0x0c
	c.Charset = uint16(b[pos]) | uint16(b[pos+1])<<8
	c.Length = binary.LittleEndian.Uint32(b[pos+2:])
	c.Type = b[pos+6]
	c.Flags = uint16(b[pos+7]) | uint16(b[pos+8])<<8
	c.Decimals = b[pos+9]
	return c, nil
}

// TextRow encodes one row of the text protocol; nil entries are NULL.
func TextRow(vals [][]byte) []byte {
	var b []byte
	for _, v := range vals {
		if v == nil {
			b = append(b, 0xfb)
		} else {
			b = AppendLenStr(b, v)
		}
	}
	return b
}

func ParseTextRow(b []byte, ncols int) ([][]byte, error) {
	out := make([][]byte, 0, ncols)
	pos := 0
	for i := 0; i < ncols; i++ {
		s, null, n := ReadLenStr(b[pos:])
		if n == 0 {
			return nil, fmt.Errorf("malformed text row at column %d", i)
		}
		pos += n
		if null {
			out = append(out, nil)
		} else {
			out = append(out, append([]byte{}, s...))
		}
	}
	if pos != len(b) {
		return nil, fmt.Errorf("text row has %d trailing bytes", len(b)-pos)
	}
	return out, nil
}

// ---- handshake -----------------------------------------------------------------

type Greeting struct {
	Version string
	ConnID  uint32
	Salt    []byte
	Caps    uint32
	Charset byte
	Status  uint16
	Plugin  string
}

func (g Greeting) Encode() []byte {
	b := []byte{10}
	b = append(b, g.Version...)
	b = append(b, 0)
	b = append(b, byte(g.ConnID), byte(g.ConnID>>8), byte(g.ConnID>>16), byte(g.ConnID>>24))
	b = append(b, g.Salt[:8]...)
	b = append(b, 0)
	b = append(b, byte(g.Caps), byte(g.Caps>>8))
	b = append(b, g.Charset)
	b = append(b, byte(g.Status), byte(g.Status>>8))
	b = append(b, byte(g.Caps>>16), byte(g.Caps>>24))
	b = append(b, 21)
	b = append(b, make([]byte, 10)...)
	b = append(b, g.Salt[8:20]...)
	b = append(b, 0)
	b = append(b, g.Plugin...)
	b = append(b, 0)
	return b
}

func ParseGreeting(b []byte) (Greeting, error) {
	var g Greeting
	if len(b) < 1 || b[0] != 10 {
		if len(b) > 0 && b[0] == 0xff {
			return g, ParseERR(b)
		}
		return g, errors.New("not a v10 greeting")
	}
	i := bytes.IndexByte(b[1:], 0)
	if i < 0 {
		return g, errors.New("greeting: version not terminated")
	}
	g.Version = string(b[1 : 1+i])
	pos := 2 + i
	if len(b) < pos+4+8+1+2+1+2+2+1+10 {
		return g, errors.New("greeting too short")
	}
	g.ConnID = binary.LittleEndian.Uint32(b[pos:])
	pos += 4
	g.Salt = append(g.Salt, b[pos:pos+8]...)
	pos += 9
	g.Caps = uint32(b[pos]) | uint32(b[pos+1])<<8
	pos += 2
	g.Charset = b[pos]
	pos++
	g.Status = uint16(b[pos]) | uint16(b[pos+1])<<8
	pos += 2
	g.Caps |= uint32(b[pos])<<16 | uint32(b[pos+1])<<24
	pos += 2
	alen := int(b[pos])
	pos += 1 + 10
	n := alen - 8
	if n < 13 {
		n = 13
	}
	if len(b) < pos+n {
		return g, errors.New("greeting: salt part 2 missing")
	}
	g.Salt = append(g.Salt, b[pos:pos+n-1]...)
	pos += n
	if pos < len(b) {
		j := bytes.IndexByte(b[pos:], 0)
		if j < 0 {
			j = len(b) - pos
		}
		g.Plugin = string(b[pos : pos+j])
	}
	return g, nil
}

type Login struct {
	Caps    uint32
	Charset byte
	User    string
	Auth    []byte
	DB      string
	Plugin  string
}

func (l Login) Encode() []byte {
	b := []byte{byte(l.Caps), byte(l.Caps >> 8), byte(l.Caps >> 16), byte(l.Caps >> 24)}
	b = append(b, 0, 0, 0, 1) // max packet
	b = append(b, l.Charset)
	b = append(b, make([]byte, 23)...)
	b = append(b, l.User...)
	b = append(b, 0)
	b = append(b, byte(len(l.Auth)))
	b = append(b, l.Auth...)
	if l.Caps&CConnectWithDB != 0 {
		b = append(b, l.DB...)
		b = append(b, 0)
	}
	if l.Caps&CPluginAuth != 0 {
		b = append(b, l.Plugin...)
		b = append(b, 0)
	}
	return b
}

func ParseLogin(b []byte) (Login, error) {
	var l Login
	if len(b) < 32 {
		return l, errors.New("login packet too short")
	}
	l.Caps = binary.LittleEndian.Uint32(b)
	l.Charset = b[8]
	pos := 32
	i := bytes.IndexByte(b[pos:], 0)
	if i < 0 {
		return l, errors.New("login: user not terminated")
	}
	l.User = string(b[pos : pos+i])
	pos += i + 1
	if pos >= len(b) {
		return l, nil
	}
	alen := int(b[pos])
	pos++
	if pos+alen > len(b) {
		return l, errors.New("login: auth data truncated")
	}
	l.Auth = append([]byte{}, b[pos:pos+alen]...)
	pos += alen
	if l.Caps&CConnectWithDB != 0 && pos < len(b) {
		i := bytes.IndexByte(b[pos:], 0)
		if i < 0 {
			i = len(b) - pos
		}
		l.DB = string(b[pos : pos+i])
		pos += i + 1
	}
	if l.Caps&CPluginAuth != 0 && pos < len(b) {
		i := bytes.IndexByte(b[pos:], 0)
		if i < 0 {
			i = len(b) - pos
		}
		l.Plugin = string(b[pos : pos+i])
	}
	return l, nil
}

// NativeScramble: SHA1(password) XOR SHA1(salt + SHA1(SHA1(password)))
func NativeScramble(password string, salt []byte) []byte {
	if password == "" {
		return nil
	}
	h1 := sha1.Sum([]byte(password))
	h2 := sha1.Sum(h1[:])
	h := sha1.New()
	h.Write(salt)
	h.Write(h2[:])
	h3 := h.Sum(nil)
	out := make([]byte, 20)
	for i := range out {
		out[i] = h1[i] ^ h3[i]
	}
	return out
}

// Sha2Scramble: SHA256(password) XOR SHA256(SHA256(SHA256(password)) + salt)
func Sha2Scramble(password string, salt []byte) []byte {
	if password == "" {
		return nil
	}
	h1 := sha256.Sum256([]byte(password))
	h2 := sha256.Sum256(h1[:])
	h := sha256.New()
	h.Write(h2[:])
	h.Write(salt)
	h3 := h.Sum(nil)
	out := make([]byte, 32)
	for i := range out {
		out[i] = h1[i] ^ h3[i]
	}
	return out
}

var _ = math.MaxInt32
