package wbbackend

import (
	"fmt"
	"sort"

	"github.com/XiaoMi/Gaea/backend"
	"github.com/XiaoMi/Gaea/models"

	"verif/harness/simkit"
)

// C25: replica selection through the real Slice.GetSlaveConn / balancer over
// fake pools: weights, zero weights, up/down flips, datacenter locality
// policies, pool errors, concurrent selection and a counter close to 2^32.

func init() {
	worlds["C25"] = &simkit.World{Property: "C25", Run: runC25, Classify: classifyC25, TraceCap: 2500, MinBudget: 500}
}

type c25node struct {
	ref    *refNode
	weight int
	local  bool
	picks  int
}

func gcdInts(a []int) int {
	g := 0
	for _, x := range a {
		for x != 0 {
			g, x = x, g%x
		}
	}
	if g == 0 {
		return 1
	}
	return g
}

func runC25(r *simkit.Run) {
	tp := r.Tape
	n := tp.Range(1, 6)
	policy := tp.Choose(3) // 0 closed, 1 prefer, 2 force
	nearWrap := tp.Chance(1, 4)
	if simkit.Params["partition"] == "strict" {
		nearWrap = false
	}
	racy := tp.Chance(1, 2)
	if racy {
		r.SetSiteDensity([]int{4, 2}[tp.Choose(2)], uint32(tp.Choose(1<<16)))
	} else {
		r.SetSiteDensity(0, 0)
	}
	var nodes []*c25node
	sl := &backend.Slice{Cfg: models.Slice{Name: "slice-0"}, Namespace: "ns", ProxyDatacenter: "c3"}
	sl.Slave = &backend.DBInfo{}
	lastPick := map[string]*c25node{}
	// half of the runs build the replica list the way a namespace configuration does (address@weight#datacenter,
	// the weight may be left out: it is 1 then) and then put the fake pools in place of the real ones
	viaConfig := tp.Chance(1, 2)
	var addrs []string
	for i := 0; i < n; i++ {
		w := []int{0, 1, 1, 2, 3, 4, 6, 8, tp.Range(0, 8)}[tp.Choose(9)]
		local := tp.Chance(1, 2)
		dc := "c3"
		if !local {
			dc = []string{"c4", "zjy"}[tp.Choose(2)]
		}
		sc := &nodeScript{name: fmt.Sprintf("replica%d", i)}
		p := &fakePool{s: sc, dc: dc}
		ref := &refNode{script: sc, pool: p, up: true}
		ref.node = &backend.NodeInfo{Address: sc.name, Datacenter: dc, Weight: w, ConnPool: p, Status: backend.StatusUp}
		cn := &c25node{ref: ref, weight: w, local: local}
		p.onGet = func(p *fakePool, err error) { lastPick[r.CurrentTask()] = cn }
		nodes = append(nodes, cn)
		sl.Slave.Nodes = append(sl.Slave.Nodes, ref.node)
		a := fmt.Sprintf("%s:3306@%d#%s", sc.name, w, dc)
		if w == 1 && tp.Chance(1, 2) {
			a = fmt.Sprintf("%s:3306#%s", sc.name, dc) // no weight given
		}
		addrs = append(addrs, a)
	}
	if viaConfig {
		sl.Cfg.Capacity, sl.Cfg.MaxCapacity, sl.Cfg.IdleTimeout = 1, 1, 3600
		if err := sl.ParseSlave(addrs); err != nil {
			r.Failf("harness", "ParseSlave(%v): %v", addrs, err)
			return
		}
		if len(sl.Slave.Nodes) != n {
			r.Failf("harness", "ParseSlave(%v) built %d nodes", addrs, len(sl.Slave.Nodes))
			return
		}
		for i, node := range sl.Slave.Nodes {
			node.ConnPool.Close()
			node.ConnPool = nodes[i].ref.pool
			nodes[i].ref.node = node
		}
		r.Probe("replica-list-parsed-from-configuration")
	} else if err := sl.Slave.InitBalancers("c3"); err != nil {
		r.Failf("harness", "InitBalancers: %v", err)
		return
	}
	cfg := fmt.Sprintf("policy=%d nearWrap=%v racy=%v viaConfig=%v nodes=", policy, nearWrap, racy, viaConfig)
	for _, c := range nodes {
		cfg += fmt.Sprintf("[w%d local=%v]", c.weight, c.local)
	}
	r.Logf("config %s", cfg)
	if nearWrap {
		backend.VerifBalancerSetNext(sl.Slave, -1, uint32(0xFFFFFFFF-uint32(tp.Range(0, 12))))
		r.Probe("counter-near-2^32")
	}
	// scope of the balancer the policy uses when everything is up
	inScope := func(c *c25node, pol int, stage int) bool {
		if c.weight <= 0 {
			return false
		}
		switch pol {
		case 0:
			return true
		case 2:
			return c.local
		default:
			if stage == 0 {
				return c.local
			}
			return !c.local
		}
	}
	call := func() (*c25node, error) {
		me := r.CurrentTask()
		delete(lastPick, me)
		pc, err := sl.GetSlaveConn(sl.Slave, policy)
		got := lastPick[me]
		if err == nil && pc == nil {
			r.Failf("nil-conn-without-error", "GetSlaveConn returned neither a connection nor an error")
		}
		if err != nil {
			return nil, err
		}
		return got, nil
	}
	checkPick := func(got *c25node, err error, who string) {
		anyLocalUp, anyRemoteUp, anyUp := false, false, false
		for _, c := range nodes {
			if c.weight > 0 && c.ref.node.IsStatusUp() {
				anyUp = true
				if c.local {
					anyLocalUp = true
				} else {
					anyRemoteUp = true
				}
			}
		}
		_ = anyRemoteUp
		if err != nil {
			eligible := anyUp
			if policy == 2 {
				eligible = anyLocalUp
			}
			if eligible && !poolErrors(nodes) {
				r.Failf("no-replica-although-eligible-up", "%s: GetSlaveConn failed (%v) although an eligible replica is up (policy %d)", who, err, policy)
			}
			return
		}
		if got == nil {
			return
		}
		got.picks++
		switch {
		case got.weight <= 0:
			r.Failf("zero-weight-picked", "%s: replica %s with weight %d was selected", who, got.ref.script.name, got.weight)
		case !got.ref.node.IsStatusUp():
			r.Failf("down-replica-picked", "%s: replica %s is marked down and was selected", who, got.ref.script.name)
		case policy == 2 && !got.local:
			r.Failf("force-local-picked-remote", "%s: forced-local read was served by %s in another datacenter", who, got.ref.script.name)
		case policy == 1 && !got.local && anyLocalUp && !poolErrors(nodes):
			r.Failf("prefer-local-picked-remote", "%s: preferred-local read went to remote %s although a local replica is up", who, got.ref.script.name)
		}
	}

	// ---- phase A: everything up, sequential: exact weighted windows
	scope := []*c25node{}
	for _, c := range nodes {
		if inScope(c, policy, 0) {
			scope = append(scope, c)
		}
	}
	if policy == 1 && len(scope) == 0 {
		for _, c := range nodes {
			if inScope(c, policy, 1) {
				scope = append(scope, c)
			}
		}
	}
	ws := []int{}
	for _, c := range scope {
		ws = append(ws, c.weight)
	}
	g := gcdInts(ws)
	sum := 0
	for _, w := range ws {
		sum += w / g
	}
	if sum > 0 {
		total := 3*sum + tp.Range(0, sum)
		var seq []*c25node
		for i := 0; i < total && !r.Failed(); i++ {
			got, err := call()
			r.Steps++
			if err != nil {
				r.Failf("no-replica-although-eligible-up", "all replicas up: GetSlaveConn failed: %v", err)
				break
			}
			checkPick(got, nil, "sequential")
			seq = append(seq, got)
		}
		for i := 0; i+sum <= len(seq) && !r.Failed(); i++ {
			cnt := map[*c25node]int{}
			for _, c := range seq[i : i+sum] {
				cnt[c]++
			}
			for _, c := range scope {
				if cnt[c] != c.weight/g {
					names := ""
					for _, x := range seq[i : i+sum] {
						names += x.ref.script.name[7:] + " "
					}
					r.Failf("weighted-window-inexact", "selections %d..%d (%s) contain %s %d times, its normalized weight is %d of %d (nearWrap=%v)", i, i+sum-1, names, c.ref.script.name, cnt[c], c.weight/g, sum, nearWrap)
					if nearWrap {
						r.World = "wrap"
					}
					break
				}
			}
		}
	}
	// ---- phase B: concurrent selections, all up: totals over k*sum calls are exact
	if sum > 0 && !r.Failed() && racy {
		for _, c := range nodes {
			c.picks = 0
		}
		k := tp.Range(1, 2)
		calls := k * sum
		tasks := tp.Range(2, 3)
		issued := 0
		for t := 0; t < tasks; t++ {
			name := fmt.Sprintf("sel%d", t)
			r.Go(name, func() {
				for issued < calls && !r.Failed() {
					issued++
					got, err := call()
					checkPick(got, err, name)
				}
			})
		}
		for r.Steps < 20000 && !r.Failed() {
			r.Settle()
			en := r.Enabled()
			if len(en) == 0 {
				break
			}
			r.Release(en[tp.Choose(len(en))])
		}
		if !r.Failed() && !nearWrap {
			for _, c := range scope {
				if c.picks != k*c.weight/g {
					r.Failf("weighted-total-inexact", "%d concurrent selections picked %s %d times, expected %d", calls, c.ref.script.name, c.picks, k*c.weight/g)
				}
			}
		}
		r.Nontrivial = true
		r.Probe("concurrent-selection")
	}
	// ---- phase C: status flips and pool errors between calls
	if !r.Failed() {
		r.FreeRun()
		ops := tp.Range(5, 40)
		for i := 0; i < ops && !r.Failed(); i++ {
			switch tp.Choose(5) {
			case 0, 1:
				c := nodes[tp.Choose(len(nodes))]
				if c.ref.node.IsStatusUp() {
					c.ref.node.SetStatusDown()
					r.Fault("node-down")
				} else {
					c.ref.node.SetStatusUp()
				}
				r.Logf("flip %s -> up=%v", c.ref.script.name, c.ref.node.IsStatusUp())
			case 2:
				c := nodes[tp.Choose(len(nodes))]
				c.ref.script.getErr = []string{"", "other", "conn"}[tp.Choose(3)]
				if c.ref.script.getErr != "" {
					r.Fault("pool-get-error")
				}
				r.Logf("pool of %s now answers Get with %q", c.ref.script.name, c.ref.script.getErr)
			default:
				got, err := call()
				r.Steps++
				r.Logf("select -> %v err=%v", nameOf(got), err != nil)
				checkPick(got, err, "after flips")
				if got != nil && err == nil && got.ref.script.getErr != "" {
					r.Failf("harness", "a pool that fails Get returned a connection")
				}
				if err != nil && policy == 2 {
					r.Probe("force-local-error")
				}
			}
			r.Sched("c", fmt.Sprint(i))
		}
		if r.Faults["node-down"] > 0 {
			r.Nontrivial = true
		}
	}
	keys := []string{}
	for _, c := range nodes {
		keys = append(keys, fmt.Sprintf("%d%v", c.weight, c.local))
	}
	sort.Strings(keys)
	r.State(simkit.Hash(fmt.Sprint(policy, keys)))
	r.Sample = map[string]interface{}{"config": cfg, "normalized_sum": sum, "trace_tail": tailN(r.Trace(), 12)}
}

func poolErrors(nodes []*c25node) bool {
	for _, c := range nodes {
		if c.ref.script.getErr != "" {
			return true
		}
	}
	return false
}

func nameOf(c *c25node) string {
	if c == nil {
		return "<none>"
	}
	return c.ref.script.name
}

func tailN(s []string, n int) []string {
	if len(s) > n {
		return s[len(s)-n:]
	}
	return s
}

func classifyC25(r *simkit.Run) {
	if r.Viol != nil && r.Viol.Clause == "weighted-window-inexact" && r.World == "wrap" {
		r.Viol.Finding = "C25-F1"
	}
}
