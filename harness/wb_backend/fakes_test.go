package wbbackend

import (
	"context"
	"errors"
	"fmt"
	"time"

	"github.com/XiaoMi/Gaea/backend"
	"github.com/XiaoMi/Gaea/mysql"
)

// nodeScript is what a simulated backend node currently does; the harness
// changes it between scheduler steps.
type nodeScript struct {
	name string
	// probe behaviour
	getCheck  string // "" ok | "fail"
	healthSQL string // "" ok | "shutdown" | "tablespace" | "discarded" | "timeout" | "other"
	ping      string // "" ok | "fail"
	select1   string // "" ok | "fail"
	slave     string // "" healthy | "lag" | "io" | "sql" | "io-connecting" | "nopriv" | "empty" | "error" | "null-lag-stopped"
	lag       uint64
	// client path
	getErr string // "" ok | "conn" | "other"

	probes    int // GetCheck calls observed
	gets      int
	lastProbe time.Duration
}

type fakePool struct {
	s           *nodeScript
	dc          string
	lastChecked int64
	onProbe     func(p *fakePool)
	onGet       func(p *fakePool, err error)
}

func (p *fakePool) Open() error        { return nil }
func (p *fakePool) Addr() string       { return p.s.name }
func (p *fakePool) Datacenter() string { return p.dc }
func (p *fakePool) Close()             {}
func (p *fakePool) Get(ctx context.Context) (backend.PooledConnect, error) {
	p.s.gets++
	var err error
	switch p.s.getErr {
	case "conn":
		err = mysql.NewConnTypeError(p.s.name, "dial tcp: connection refused")
	case "other":
		err = errors.New("some other error")
	}
	if p.onGet != nil {
		p.onGet(p, err)
	}
	if err != nil {
		return nil, err
	}
	return &fakeConn{p: p}, nil
}
func (p *fakePool) GetCheck(ctx context.Context) (backend.PooledConnect, error) {
	p.s.probes++
	if p.onProbe != nil {
		p.onProbe(p)
	}
	if p.s.getCheck == "fail" {
		return nil, mysql.NewConnTypeError(p.s.name, "get check conn failed")
	}
	return &fakeConn{p: p, check: true}, nil
}
func (p *fakePool) Put(pc backend.PooledConnect)             {}
func (p *fakePool) SetCapacity(capacity int) (err error)     { return nil }
func (p *fakePool) SetIdleTimeout(idleTimeout time.Duration) {}
func (p *fakePool) StatsJSON() string                        { return "{}" }
func (p *fakePool) Capacity() int64                          { return 1 }
func (p *fakePool) Available() int64                         { return 1 }
func (p *fakePool) Active() int64                            { return 0 }
func (p *fakePool) InUse() int64                             { return 0 }
func (p *fakePool) MaxCap() int64                            { return 1 }
func (p *fakePool) WaitCount() int64                         { return 0 }
func (p *fakePool) WaitTime() time.Duration                  { return 0 }
func (p *fakePool) IdleTimeout() time.Duration               { return 0 }
func (p *fakePool) IdleClosed() int64                        { return 0 }
func (p *fakePool) SetLastChecked()                          { p.lastChecked = time.Now().Unix() }
func (p *fakePool) GetLastChecked() int64                    { return p.lastChecked }

type fakeConn struct {
	p      *fakePool
	check  bool
	closed bool
}

func (c *fakeConn) Recycle()              {}
func (c *fakeConn) Reconnect() error      { return nil }
func (c *fakeConn) Close()                { c.closed = true }
func (c *fakeConn) IsClosed() bool        { return c.closed }
func (c *fakeConn) UseDB(db string) error { return nil }
func (c *fakeConn) Execute(sql string, maxRows int) (*mysql.Result, error) {
	if sql == "show slave status;" {
		return c.slaveStatus()
	}
	return &mysql.Result{Resultset: &mysql.Resultset{}}, nil
}
func (c *fakeConn) ExecuteWithTimeout(sql string, maxRows int, timeout time.Duration) (*mysql.Result, error) {
	if sql == "select 1" {
		if c.p.s.select1 == "fail" {
			return nil, mysql.NewConnTypeError(c.p.s.name, "select 1 failed")
		}
		return &mysql.Result{Resultset: &mysql.Resultset{}}, nil
	}
	// the namespace's health check SQL
	switch c.p.s.healthSQL {
	case "shutdown":
		return nil, mysql.NewError(mysql.ErrServerShutdown, "Server shutdown in progress")
	case "tablespace":
		return nil, mysql.NewError(mysql.ErrTablespaceMissing, "Tablespace is missing")
	case "discarded":
		return nil, mysql.NewError(mysql.ErrTablespaceDiscarded, "Tablespace has been discarded")
	case "timeout":
		return nil, backend.ErrExecuteTimeout
	case "other":
		return nil, mysql.NewError(mysql.ErrNoSuchTable, "Table doesn't exist")
	}
	return &mysql.Result{Resultset: &mysql.Resultset{}}, nil
}
func (c *fakeConn) slaveStatus() (*mysql.Result, error) {
	s := c.p.s
	switch s.slave {
	case "nopriv":
		return nil, mysql.NewError(mysql.ErrSpecificAccessDenied, "Access denied; you need the REPLICATION CLIENT privilege")
	case "error":
		return nil, mysql.NewError(mysql.ErrUnknown, "unknown error")
	case "empty":
		return &mysql.Result{Resultset: &mysql.Resultset{}}, nil
	}
	io, sqlr := "Yes", "Yes"
	var lag interface{} = uint64(0)
	switch s.slave {
	case "lag":
		lag = s.lag
	case "io":
		io = "No"
		lag = s.lag
	case "io-connecting":
		io = "Connecting"
		lag = s.lag
	case "sql":
		sqlr = "No"
		lag = s.lag
	case "null-lag-stopped":
		sqlr = "No"
		lag = nil
	}
	names := []string{"Slave_IO_State", "Seconds_Behind_Master", "Slave_IO_Running", "Slave_SQL_Running", "Master_Log_File", "Read_Master_Log_Pos", "Relay_Master_Log_File", "Exec_Master_Log_Pos"}
	vals := []interface{}{"Waiting for master to send event", lag, io, sqlr, "mysql-bin.000001", uint64(4), "mysql-bin.000001", uint64(4)}
	rs := &mysql.Resultset{FieldNames: map[string]int{}}
	for i, n := range names {
		rs.Fields = append(rs.Fields, &mysql.Field{Name: []byte(n)})
		rs.FieldNames[n] = i
	}
	rs.Values = [][]interface{}{vals}
	return &mysql.Result{Resultset: rs}, nil
}
func (c *fakeConn) SetAutoCommit(v uint8) error { return nil }
func (c *fakeConn) Begin() error                { return nil }
func (c *fakeConn) Commit() error               { return nil }
func (c *fakeConn) Rollback() error             { return nil }
func (c *fakeConn) Ping() error                 { return nil }
func (c *fakeConn) PingWithTimeout(timeout time.Duration) error {
	if c.p.s.ping == "fail" {
		return mysql.NewConnTypeError(c.p.s.name, "ping failed")
	}
	return nil
}
func (c *fakeConn) SetCharset(charset string, collation mysql.CollationID) (bool, error) {
	return false, nil
}
func (c *fakeConn) FieldList(table string, wildcard string) ([]*mysql.Field, error) { return nil, nil }
func (c *fakeConn) GetAddr() string                                                 { return c.p.s.name }
func (c *fakeConn) SetSessionVariables(frontend *mysql.SessionVariables) (bool, error) {
	return false, nil
}
func (c *fakeConn) SyncSessionVariables(frontend *mysql.SessionVariables) error { return nil }
func (c *fakeConn) WriteSetStatement() error                                    { return nil }
func (c *fakeConn) GetConnectionID() int64                                      { return 1 }
func (c *fakeConn) GetReturnTime() time.Time                                    { return time.Time{} }
func (c *fakeConn) MoreRowsExist() bool                                         { return false }
func (c *fakeConn) MoreResultsExist() bool                                      { return false }
func (c *fakeConn) FetchMoreRows(result *mysql.Result, maxRows int) error       { return nil }
func (c *fakeConn) ReadMoreResult(maxRows int) (*mysql.Result, error)           { return nil, nil }

var _ = fmt.Sprint
