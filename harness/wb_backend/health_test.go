package wbbackend

import (
	"context"
	"fmt"
	"time"

	"github.com/XiaoMi/Gaea/backend"
	"github.com/XiaoMi/Gaea/models"
	"github.com/XiaoMi/Gaea/mysql"

	"verif/harness/simkit"
)

// C26 / C27 / C28: a real backend.Slice whose pools are scripted fakes. The
// real CheckStatus goroutines tick on the fake clock; reader tasks go through
// GetSlaveConn so TryFuse sees scripted connection errors. A small reference
// model of breaker, recovery policy and status machine is stepped on every
// observed probe and every observed client error and compared with the node
// status the real code ends up with.

func init() {
	for _, p := range []string{"C26", "C27", "C28"} {
		p := p
		worlds[p] = &simkit.World{Property: p, Run: func(r *simkit.Run) { runHealth(r, p) }, Classify: classifyHealth, TraceCap: 3000, MinBudget: 500}
	}
}

const pingPeriod = 4

type refNode struct {
	script      *nodeScript
	node        *backend.NodeInfo
	pool        *fakePool
	isMaster    bool
	up          bool
	lastChecked int64
	// breaker
	errSecs []int64
	// recovery
	fused             bool  // the current down state was (also) caused by the breaker
	lastFuse          int64 // hard: latest triggering error; gradual: latest up->down by breaker
	lastRecov         int64
	badCount          int64
	consec            int64
	viaMasterDown     bool
	masterDownRestore bool // the reference refused a restore that the master-down rule would make
}

type healthWorld struct {
	r            *simkit.Run
	focus        string
	policy       string // none | hard | gradual
	cool         int64
	window       int64
	minErr       int64
	downAfter    int64
	lagLimit     int
	healthSQL    string
	master       *refNode
	replicas     []*refNode
	slice        *backend.Slice
	atomicRun    bool
	masterVaries bool
	pendingFuse  int // reader calls in progress
	finding      string
}

func (w *healthWorld) unix() int64 { return time.Now().Unix() }

func (w *healthWorld) class(clause string) string {
	switch clause[:3] {
	case "C26", "C27", "C28":
		return clause[:3]
	}
	return ""
}

// fail reports clauses of the focused property; other properties' clauses are
// left to their own check (the model is resynchronised by the caller).
func (w *healthWorld) fail(clause, format string, a ...interface{}) {
	if w.class(clause) == w.focus || w.class(clause) == "" {
		w.r.Failf(clause, format, a...)
	} else {
		w.r.Probe("other-property-clause:" + clause)
	}
}

func (w *healthWorld) probeOK(s *nodeScript) bool {
	if s.getCheck == "fail" {
		return false
	}
	if w.healthSQL != "" {
		switch s.healthSQL {
		case "":
			return true
		case "shutdown", "tablespace", "discarded", "timeout":
			return false
		}
	}
	return s.ping != "fail" && s.select1 != "fail"
}

// syncAlive is the reference for "replication is healthy enough".
func (w *healthWorld) syncAlive(s *nodeScript, ok bool) bool {
	if w.lagLimit == 0 || !ok {
		return true
	}
	switch s.slave {
	case "nopriv", "empty", "":
		return true
	case "error":
		return false
	case "lag":
		return s.lag <= uint64(w.lagLimit)
	case "io", "sql", "io-connecting", "null-lag-stopped":
		return false
	}
	return true
}

// onProbe steps the reference for one probe round of one node. It is called
// from the fake pool's GetCheck, i.e. at the instant the real round starts;
// the expected status is compared when the round is over.
func (w *healthWorld) refProbe(n *refNode) {
	s := w.unix()
	ok := w.probeOK(n.script)
	// (masterDownRestore stays set until the next comparison has looked at it: the drain phase advances four
	// seconds at a time, which may cover two probe rounds)
	if ok {
		n.lastChecked = s
	}
	if n.isMaster {
		if s-n.lastChecked >= w.downAfter {
			n.up = false
			return
		}
		if ok && !n.up {
			n.up = true
		}
		return
	}
	if w.policy == "gradual" && !ok && !n.up {
		n.consec = penalty(n.badCount)
	}
	if s-n.lastChecked >= w.downAfter {
		if n.up {
			n.fused = false
		}
		n.up = false
		return
	}
	if !w.master.up {
		// With the master down the code puts down replicas back up so that reads
		// keep being served. The reference follows that rule except for a replica
		// the breaker took down whose cool-down has not elapsed: C27 forbids
		// restoring it (known finding C27-F1 on the pinned tree).
		if w.policy != "gradual" && !n.up {
			if w.policy == "hard" && n.fused && s < n.lastFuse+w.cool {
				n.masterDownRestore = true
				return
			}
			n.up = true
			n.viaMasterDown = true
		}
		return
	}
	if !w.syncAlive(n.script, ok) {
		if n.up {
			n.fused = false
		}
		n.up = false
		return
	}
	if ok && !n.up {
		switch w.policy {
		case "none":
			n.up = true
		case "hard":
			if s >= n.lastFuse+w.cool {
				n.up = true
			}
		case "gradual":
			if n.consec > 0 {
				n.consec--
			} else {
				n.lastRecov = s
				n.up = true
			}
		}
		if n.up {
			n.viaMasterDown = false
		}
	}
}

func penalty(n int64) int64 {
	p := (1 + n) * n / 2
	if p > 120 {
		p = 120
	}
	return p
}

// refClientError steps the reference breaker for one error seen by a client.
func (w *healthWorld) refClientError(n *refNode, kind string) (triggered bool) {
	if w.policy == "none" || kind != "conn" {
		return false
	}
	s := w.unix()
	n.errSecs = append(n.errSecs, s)
	cnt := int64(0)
	for _, e := range n.errSecs {
		if e > s-w.window {
			cnt++
		}
	}
	if cnt < w.minErr {
		return false
	}
	changed := n.up
	n.up = false
	switch w.policy {
	case "hard":
		n.lastFuse = s
		n.fused = true
	case "gradual":
		if changed {
			n.fused = true
			n.lastFuse = s
			if s-n.lastRecov <= 2*pingPeriod {
				n.badCount++
				n.consec = penalty(n.badCount)
			} else {
				n.badCount = 3
			}
		}
	}
	return true
}

func runHealth(r *simkit.Run, focus string) {
	tp := r.Tape
	w := &healthWorld{r: r, focus: focus}
	r.World = w
	nRep := tp.Range(1, 3)
	w.policy = []string{"hard", "gradual", "none"}[tp.Choose(3)]
	w.cool = int64([]int{5, 9, 30, 60}[tp.Choose(4)])
	w.window = int64(tp.Range(1, 8))
	w.minErr = int64(tp.Range(1, 8))
	w.downAfter = int64([]int{8, 12, 16, 32}[tp.Choose(4)])
	w.lagLimit = []int{0, 10, 10}[tp.Choose(3)]
	w.healthSQL = []string{"", "select 1 from dual"}[tp.Choose(2)]
	w.atomicRun = !tp.Chance(1, 3)
	w.masterVaries = tp.Chance(1, 3)
	if simkit.Params["partition"] == "strict" {
		w.masterVaries = false
	}
	nOps := tp.Range(10, 60)
	if w.atomicRun {
		r.SetSiteDensity(0, 0)
	} else {
		r.SetSiteDensity([]int{4, 2, 1}[tp.Choose(3)], uint32(tp.Choose(1<<16)))
	}
	cfg := fmt.Sprintf("replicas=%d policy=%s cool=%d window=%d min=%d downAfter=%d lagLimit=%d healthSQL=%q atomic=%v masterVaries=%v", nRep, w.policy, w.cool, w.window, w.minErr, w.downAfter, w.lagLimit, w.healthSQL, w.atomicRun, w.masterVaries)
	r.Logf("config %s", cfg)

	now := w.unix()
	mk := func(name string, isMaster bool) *refNode {
		sc := &nodeScript{name: name}
		p := &fakePool{s: sc, dc: "c3", lastChecked: now}
		n := &refNode{script: sc, pool: p, isMaster: isMaster, up: true, lastChecked: now, badCount: 3, lastRecov: now}
		n.node = &backend.NodeInfo{Address: name, Datacenter: "c3", Weight: 1, ConnPool: p, Status: backend.StatusUp}
		return n
	}
	w.master = mk("master", true)
	for i := 0; i < nRep; i++ {
		w.replicas = append(w.replicas, mk(fmt.Sprintf("replica%d", i), false))
	}
	sl := &backend.Slice{Cfg: models.Slice{Name: "slice-0"}, Namespace: "ns", ProxyDatacenter: "c3", HealthCheckSql: w.healthSQL}
	sl.Master = &backend.DBInfo{Nodes: []*backend.NodeInfo{w.master.node}}
	sl.Slave = &backend.DBInfo{}
	for _, n := range w.replicas {
		sl.Slave.Nodes = append(sl.Slave.Nodes, n.node)
	}
	sl.FuseEnabled = "ON"
	sl.FuseWindowSize, sl.FuseMinErrorCount = w.window, w.minErr
	if w.policy == "hard" {
		sl.FuseCooldownPeriod = w.cool
	}
	if w.policy != "none" {
		if err := sl.InitFuseRecoveryPolicy(sl.Slave); err != nil {
			r.Failf("harness", "InitFuseRecoveryPolicy: %v", err)
			return
		}
	}
	if err := sl.Slave.InitBalancers("c3"); err != nil {
		r.Failf("harness", "InitBalancers: %v", err)
		return
	}
	w.slice = sl

	// observation: every probe the real checker starts steps the reference
	all := append([]*refNode{w.master}, w.replicas...)
	roundOpen := map[*refNode]bool{}
	masterSeenDown := false
	for _, n := range all {
		n := n
		n.pool.onProbe = func(p *fakePool) {
			if !w.master.node.IsStatusUp() {
				masterSeenDown = true
			}
			n.script.lastProbe = r.Now()
			r.Logf("probe %s at %v (unix %d) script{getCheck=%q health=%q ping=%q sel1=%q slave=%q lag=%d} real=%v ref.up=%v", n.script.name, r.Now(), w.unix(), n.script.getCheck, n.script.healthSQL, n.script.ping, n.script.select1, n.script.slave, n.script.lag, n.node.IsStatusUp(), n.up)
			if w.atomicRun {
				w.refProbe(n)
				roundOpen[n] = true
			}
		}
	}
	ctx, cancel := context.WithCancel(context.Background())
	defer cancel()
	sl.CheckStatus(ctx, int(w.downAfter), w.lagLimit)

	compare := func(when string) {
		if !w.atomicRun {
			return
		}
		for _, n := range all {
			real := n.node.IsStatusUp()
			if real == n.up {
				n.masterDownRestore = false
				continue
			}
			clause := "C28-status-differs-from-probe-history"
			detail := fmt.Sprintf("%s: node %s is %s, the probe/error history requires %s (now unix %d, lastChecked ref %d real %d, policy %s, fused=%v lastFuse=%d cool=%d consec=%d master ref up=%v)", when, n.script.name, upDown(real), upDown(n.up), w.unix(), n.lastChecked, n.pool.lastChecked, w.policy, n.fused, n.lastFuse, w.cool, n.consec, w.master.up)
			if !n.isMaster && n.fused && w.policy != "none" {
				if real && !n.up {
					clause = "C27-restored-before-recovery-condition"
				} else {
					clause = "C27-not-restored-although-condition-holds"
				}
			}

			w.fail(clause, "%s", detail)
			n.masterDownRestore = false
			n.up = real // resynchronise for clauses that belong to another property
		}
	}
	// invariants that hold under every interleaving (used in non-atomic runs too)
	lastTrigger := map[*refNode]int64{}
	// A replica that came up while the master was marked down took the master-down path (finding C27-F1), whatever
	// the master's status is by the time the invariant is evaluated: the master's status is sampled at every probe
	// start and at every evaluation, and a down->up transition of a replica is attributed to that path when the
	// master was seen down since the previous evaluation.
	prevUp := map[*refNode]bool{}
	upViaMasterDown := map[*refNode]bool{}
	invariants := func() {
		if !w.master.node.IsStatusUp() {
			masterSeenDown = true
		}
		for _, n := range w.replicas {
			up := n.node.IsStatusUp()
			if up && !prevUp[n] {
				upViaMasterDown[n] = masterSeenDown
			}
			prevUp[n] = up
		}
		masterSeenDown = !w.master.node.IsStatusUp()
		if w.policy != "hard" {
			return
		}
		for _, n := range w.replicas {
			lt, ok := lastTrigger[n]
			if !ok || !n.node.IsStatusUp() {
				continue
			}
			// (until fix 3905459 the master-down rule restored fused replicas at once - finding
			// C27-F1 - and this invariant made an exception for it; the rule respects the cool-down now)
			if w.unix() < lt+w.cool {
				w.fail("C27-restored-before-cooldown", "node %s is up at unix %d although the breaker fired at %d and the cool-down is %ds", n.script.name, w.unix(), lt, w.cool)
			}
		}
	}

	setScript := func() {
		n := all[tp.Choose(len(all))]
		if n.isMaster && !w.masterVaries {
			n = w.replicas[tp.Choose(len(w.replicas))]
		}
		sc := n.script
		*sc = nodeScript{name: sc.name, probes: sc.probes, gets: sc.gets, lastProbe: sc.lastProbe, getErr: sc.getErr}
		switch tp.Choose(10) {
		case 0, 1, 2: // healthy
		case 3:
			sc.getCheck = "fail"
			r.Fault("probe-getcheck-fail")
		case 4:
			sc.ping = "fail"
			r.Fault("probe-ping-fail")
		case 5:
			sc.healthSQL = []string{"shutdown", "tablespace", "discarded", "timeout", "other"}[tp.Choose(5)]
			r.Fault("probe-healthsql-" + sc.healthSQL)
		case 6:
			sc.select1 = "fail"
			r.Fault("probe-select1-fail")
		case 7:
			sc.slave = "lag"
			sc.lag = uint64([]int{0, 9, 10, 11, 500}[tp.Choose(5)])
			r.Fault("replication-lag")
		case 8:
			sc.slave = []string{"io", "sql", "io-connecting", "null-lag-stopped"}[tp.Choose(4)]
			sc.lag = uint64([]int{0, 3}[tp.Choose(2)])
			r.Fault("replication-thread-stopped")
		case 9:
			sc.slave = []string{"nopriv", "empty", "error"}[tp.Choose(3)]
			r.Fault("slave-status-" + sc.slave)
		}
		r.Steps++
		r.Sched("script", sc.name)
		r.Logf("%d script %s -> %+v", r.Steps, sc.name, *sc)
	}
	setGetErr := func() {
		n := w.replicas[tp.Choose(len(w.replicas))]
		n.script.getErr = []string{"", "conn", "conn", "other"}[tp.Choose(4)]
		r.Steps++
		r.Sched("geterr", n.script.name+n.script.getErr)
		r.Logf("%d client path of %s now fails with %q", r.Steps, n.script.name, n.script.getErr)
	}
	for _, n := range w.replicas {
		n := n
		n.pool.onGet = func(p *fakePool, err error) {
			kind := n.script.getErr
			wasUp := n.node.IsStatusUp()
			trig := w.refClientError(n, kind)
			if trig {
				r.Probe("breaker-fired")
			}
			r.Logf("client get on %s -> %q at unix %d (ref triggered=%v, wasUp=%v)", n.script.name, kind, w.unix(), trig, wasUp)
			n.script.lastProbe = n.script.lastProbe
			pendingCheck = append(pendingCheck, fuseObs{n: n, kind: kind, trig: trig, wasUp: wasUp, task: r.CurrentTask(), at: w.unix()})
		}
	}
	readers := 0
	reader := func() {
		readers++
		name := fmt.Sprintf("reader%d", readers)
		w.pendingFuse++
		r.Go(name, func() {
			defer func() { w.pendingFuse-- }()
			pc, err := sl.GetSlaveConn(sl.Slave, backend.LocalSlaveReadClosed)
			_ = pc
			for i := range pendingCheck {
				if o := &pendingCheck[i]; o.task == name && !o.returned {
					o.returned = true

				}
			}
			r.Logf("%s GetSlaveConn -> err=%v", name, err != nil)
		})
	}
	lateError := func() {
		n := w.replicas[tp.Choose(len(w.replicas))]
		readers++
		name := fmt.Sprintf("late%d", readers)
		w.pendingFuse++
		r.Steps++
		r.Sched("late-error", n.script.name)
		r.Go(name, func() {
			defer func() { w.pendingFuse-- }()
			err := mysql.NewConnTypeError(n.script.name, "connection error of a session that picked the replica earlier")
			saved := n.script.getErr
			n.script.getErr = "conn"
			if !n.node.IsStatusUp() {
				r.Probe("connection-error-reported-for-a-replica-that-is-down")
			}
			n.pool.onGet(n.pool, err) // the reference counts it
			n.script.getErr = saved
			sl.TryFuse(n.node, err)
			for i := range pendingCheck {
				if o := &pendingCheck[i]; o.task == name && !o.returned {
					o.returned = true
				}
			}
		})
	}
	advances := []time.Duration{100 * time.Millisecond, time.Second, time.Second, 2 * time.Second, 4 * time.Second, 5 * time.Second, 9 * time.Second, 30 * time.Second, 61 * time.Second}

	ops := 0
	for r.Steps < 6000 && !r.Failed() {
		r.Settle()
		// fuse observations are checked once the reader call has returned
		if w.pendingFuse == 0 && len(r.Enabled()) == 0 || w.atomicRun {
			for _, o := range pendingCheck {
				real := o.n.node.IsStatusUp()
				if o.trig && w.pendingFuse == 0 {
					lastTrigger[o.n] = o.at
				}
				switch {
				case o.trig && real && w.atomicRun:
					w.fail("C26-threshold-reached-but-not-fused", "node %s stayed up although the connection errors within the last %ds reached the minimum %d", o.n.script.name, w.window, w.minErr)
				case !o.trig && o.wasUp && !real && w.atomicRun:
					w.fail("C26-fused-below-threshold", "node %s was marked down by a client error of kind %q although the reference count of connection errors in the trailing %ds window is below %d (policy %s)", o.n.script.name, o.kind, w.window, w.minErr, w.policy)
				}
			}
			pendingCheck = pendingCheck[:0]
		}
		if w.pendingFuse == 0 && len(r.Enabled()) == 0 {
			compare("after step")
		}
		invariants()
		if r.Failed() {
			break
		}
		en := r.Enabled()
		if len(en) > 0 && !tp.Chance(1, 6) {
			r.Release(en[tp.Choose(len(en))])
			continue
		}
		if ops >= nOps {
			if len(en) == 0 {
				break
			}
			r.Release(en[tp.Choose(len(en))])
			continue
		}
		ops++
		c := tp.Choose(13)
		if c == 12 {
			// a connection error reported by a session that had picked the replica earlier: it reaches the
			// breaker whatever the replica's status is by now (a replica that is down is not picked any more,
			// so the ordinary client path never reports on it)
			if w.pendingFuse == 0 {
				lateError()
			}
			continue
		}
		if focus != "C28" {
			// breaker-centred mix: more client errors, fewer probe script changes
			c = []int{0, 3, 3, 4, 5, 5, 6, 7, 7, 8, 9, 10}[c]
		}
		switch {
		case c < 3:
			setScript()
		case c < 5:
			setGetErr()
		case c < 8:
			reader()
		default:
			if w.pendingFuse > 0 {
				// an error is timestamped when TryFuse runs; the clock stands still while a
				// client call is between the pool and the breaker so that the reference and
				// the code attribute it to the same second
				if en := r.Enabled(); len(en) > 0 {
					r.Release(en[tp.Choose(len(en))])
				}
				continue
			}
			r.Advance(advances[tp.Choose(len(advances))])
		}
	}
	if !r.Failed() {
		// liveness: with every fault removed each node must be up within
		// downAfter + cool-down + penalty*period of probing
		for _, n := range all {
			*n.script = nodeScript{name: n.script.name}
		}
		r.Logf("all faults removed")
		r.FreeRun()
		for i := 0; i < 200 && !r.Failed(); i++ {
			r.Advance(4 * time.Second)
			compare("drain")
			invariants()
			allUp := true
			for _, n := range all {
				if !n.node.IsStatusUp() {
					allUp = false
				}
			}
			if allUp && i > 3 {
				break
			}
		}
		for _, n := range all {
			if !n.node.IsStatusUp() && !r.Failed() {
				w.fail("C28-not-restored-after-faults-stopped", "node %s is still down %v after every probe started succeeding again", n.script.name, 800*time.Second)
			}
		}
	}
	fusedRuns := 0
	for _, n := range w.replicas {
		if _, ok := lastTrigger[n]; ok {
			fusedRuns++
		}
	}
	probes := 0
	for _, n := range all {
		probes += n.script.probes
	}
	r.Nontrivial = probes > 0 && (r.Faults["probe-getcheck-fail"]+r.Faults["probe-ping-fail"]+r.Faults["replication-lag"]+r.Faults["replication-thread-stopped"] > 0 || fusedRuns > 0)
	if focus == "C26" || focus == "C27" {
		r.Nontrivial = fusedRuns > 0
	}
	r.State(simkit.Hash(cfg))
	r.Sample = map[string]interface{}{"config": cfg, "probes": probes, "breaker_fired_on_nodes": fusedRuns, "trace_head": headN(r.Trace(), 30)}
	cancel()
	r.Stop()
	simkit.Sleep(5 * time.Second)
}

type fuseObs struct {
	task     string
	at       int64
	returned bool
	n        *refNode
	kind     string
	trig     bool
	wasUp    bool
}

var pendingCheck []fuseObs

func upDown(b bool) string {
	if b {
		return "up"
	}
	return "down"
}

func headN(s []string, n int) []string {
	if len(s) > n {
		return s[:n]
	}
	return s
}

func classifyHealth(r *simkit.Run) {
	if w, ok := r.World.(*healthWorld); ok && r.Viol != nil && r.Viol.Clause == "C27-restored-before-recovery-condition" {
		r.Viol.Finding = w.finding
	}
}
