// Package simnet is the simulated TCP transport of the W1/W3 worlds: in-memory
// byte streams between bubble goroutines with fake-clock deadlines, orderly
// close (EOF after the data in flight), reset (data in flight dropped, reads
// fail with "connection reset by peer", writes with "broken pipe"), dial
// refusal / black-holing, and optionally scheduler-owned delivery.
package simnet

import (
	"context"
	"errors"
	"fmt"
	"io"
	"net"
	"os"
	"sync"
	"time"

	"github.com/XiaoMi/Gaea/util/verifhook"
)

type Net struct {
	mu        sync.Mutex
	nextID    int
	servers   map[string]func(c *Conn) // addr -> accept function (runs in a new goroutine)
	Refuse    map[string]bool          // addr -> dial refused
	Blackhole map[string]bool          // addr -> dial hangs until the context expires
	Conns     []*Conn
	OnDial    func(addr string)
	// DialFault, when set, is asked for every dial; true refuses this one dial
	DialFault func(addr string) bool
	Log       func(format string, a ...interface{})
}

func New() *Net {
	return &Net{servers: map[string]func(c *Conn){}, Refuse: map[string]bool{}, Blackhole: map[string]bool{}}
}

type addr struct{ s string }

func (a addr) Network() string { return "tcp" }
func (a addr) String() string  { return a.s }

// Conn is one end of a simulated connection.
type Conn struct {
	n                 *Net
	ID                int
	Name              string
	peer              *Conn
	mu                *sync.Mutex // shared by both ends
	rbuf              []byte
	held              [][]byte // written by the peer, not yet delivered (Hold mode)
	Hold              bool     // deliveries to this end are explicit events
	closed            bool
	eof               bool // peer closed; EOF once rbuf and held are drained
	reset             bool
	wake              chan struct{}
	rdead             time.Time
	local             addr
	remote            addr
	BytesIn, BytesOut int
	// ResetAfterIn > 0: the connection is reset once this end has read that many bytes more
	ResetAfterIn int
}

type timeoutErr struct{}

func (timeoutErr) Error() string   { return "i/o timeout" }
func (timeoutErr) Timeout() bool   { return true }
func (timeoutErr) Temporary() bool { return true }

var _ net.Error = timeoutErr{}

func (n *Net) pair(clientName, serverName, clientAddr, serverAddr string) (*Conn, *Conn) {
	n.mu.Lock()
	defer n.mu.Unlock()
	mu := &sync.Mutex{}
	n.nextID++
	a := &Conn{n: n, ID: n.nextID, Name: clientName, mu: mu, wake: make(chan struct{}, 1), local: addr{clientAddr}, remote: addr{serverAddr}}
	n.nextID++
	b := &Conn{n: n, ID: n.nextID, Name: serverName, mu: mu, wake: make(chan struct{}, 1), local: addr{serverAddr}, remote: addr{clientAddr}}
	a.peer, b.peer = b, a
	n.Conns = append(n.Conns, a, b)
	return a, b
}

// Pipe returns a connected pair without going through Listen/Dial.
func (n *Net) Pipe(clientName, serverName, clientAddr, serverAddr string) (client *Conn, server *Conn) {
	return n.pair(clientName, serverName, clientAddr, serverAddr)
}

// Listen registers an accept function for an address.
func (n *Net) Listen(address string, accept func(c *Conn)) {
	n.mu.Lock()
	n.servers[address] = accept
	n.mu.Unlock()
}

// Dial implements the dial hook of the instrumented proxy.
func (n *Net) Dial(ctx context.Context, network, address string) (net.Conn, error) {
	n.mu.Lock()
	accept := n.servers[address]
	refuse := n.Refuse[address]
	hole := n.Blackhole[address]
	n.mu.Unlock()
	if n.OnDial != nil {
		n.OnDial(address)
	}
	if n.DialFault != nil && accept != nil && !refuse && !hole && n.DialFault(address) {
		refuse = true
	}
	if hole {
		<-ctx.Done()
		return nil, &net.OpError{Op: "dial", Net: network, Err: timeoutErr{}}
	}
	if accept == nil || refuse {
		return nil, &net.OpError{Op: "dial", Net: network, Err: errors.New("connect: connection refused")}
	}
	n.mu.Lock()
	id := n.nextID + 1
	n.mu.Unlock()
	c, s := n.pair(fmt.Sprintf("proxy>%s#%d", address, id), fmt.Sprintf("%s#%d", address, id), fmt.Sprintf("10.0.0.1:%d", 40000+id), address)
	go accept(s)
	return c, nil
}

func (c *Conn) signal() {
	select {
	case c.wake <- struct{}{}:
	default:
	}
}

func (c *Conn) Read(p []byte) (int, error) {
	for {
		c.mu.Lock()
		switch {
		case c.reset:
			c.mu.Unlock()
			return 0, &net.OpError{Op: "read", Net: "tcp", Err: errors.New("read: connection reset by peer")}
		case len(c.rbuf) > 0:
			n := copy(p, c.rbuf)
			c.rbuf = c.rbuf[n:]
			c.BytesIn += n
			if c.ResetAfterIn > 0 {
				c.ResetAfterIn -= n
				if c.ResetAfterIn <= 0 {
					c.ResetAfterIn = 0
					c.resetLocked()
				}
			}
			c.mu.Unlock()
			return n, nil
		case c.closed:
			c.mu.Unlock()
			return 0, &net.OpError{Op: "read", Net: "tcp", Err: errors.New("use of closed network connection")}
		case c.eof && len(c.held) == 0:
			c.mu.Unlock()
			return 0, io.EOF
		}
		dl := c.rdead
		c.mu.Unlock()
		if dl.IsZero() {
			<-c.wake
			continue
		}
		d := time.Until(dl)
		if d <= 0 {
			return 0, &net.OpError{Op: "read", Net: "tcp", Err: timeoutErr{}}
		}
		t := verifhook.NewTimer(d)
		select {
		case <-c.wake:
			t.Stop()
		case <-t.C:
		}
	}
}

func (c *Conn) Write(p []byte) (int, error) {
	c.mu.Lock()
	defer c.mu.Unlock()
	if c.reset || c.closed {
		return 0, &net.OpError{Op: "write", Net: "tcp", Err: errors.New("write: broken pipe")}
	}
	if c.peer.closed {
		// the peer has closed: like TCP, the first write after that is answered with a reset
		c.reset = true
		return 0, &net.OpError{Op: "write", Net: "tcp", Err: errors.New("write: broken pipe")}
	}
	b := append([]byte(nil), p...)
	c.BytesOut += len(b)
	if c.peer.Hold {
		c.peer.held = append(c.peer.held, b)
	} else {
		c.peer.rbuf = append(c.peer.rbuf, b...)
		c.peer.signal()
	}
	return len(p), nil
}

// Deliver moves the oldest held chunk (or n bytes of it, n>0) to the reader.
func (c *Conn) Deliver(n int) bool {
	c.mu.Lock()
	defer c.mu.Unlock()
	if len(c.held) == 0 {
		return false
	}
	h := c.held[0]
	if n <= 0 || n >= len(h) {
		c.rbuf = append(c.rbuf, h...)
		c.held = c.held[1:]
	} else {
		c.rbuf = append(c.rbuf, h[:n]...)
		c.held[0] = h[n:]
	}
	c.signal()
	return true
}

func (c *Conn) HeldChunks() int { c.mu.Lock(); defer c.mu.Unlock(); return len(c.held) }

func (c *Conn) Close() error {
	c.mu.Lock()
	defer c.mu.Unlock()
	if c.closed {
		return nil
	}
	c.closed = true
	c.peer.eof = true
	c.signal()
	c.peer.signal()
	return nil
}

func (c *Conn) resetLocked() {
	c.reset, c.peer.reset = true, true
	c.held, c.peer.held = nil, nil
	c.rbuf, c.peer.rbuf = nil, nil
	c.signal()
	c.peer.signal()
}

// Reset aborts the connection in both directions, dropping data in flight.
func (c *Conn) Reset() { c.mu.Lock(); c.resetLocked(); c.mu.Unlock() }

func (c *Conn) IsClosed() bool { c.mu.Lock(); defer c.mu.Unlock(); return c.closed || c.reset }
func (c *Conn) PeerGone() bool { c.mu.Lock(); defer c.mu.Unlock(); return c.eof || c.reset }

func (c *Conn) LocalAddr() net.Addr  { return c.local }
func (c *Conn) RemoteAddr() net.Addr { return c.remote }
func (c *Conn) SetDeadline(t time.Time) error {
	c.mu.Lock()
	c.rdead = t
	c.mu.Unlock()
	c.signal()
	return nil
}
func (c *Conn) SetReadDeadline(t time.Time) error  { return c.SetDeadline(t) }
func (c *Conn) SetWriteDeadline(t time.Time) error { return nil }
func (c *Conn) SetNoDelay(bool) error              { return nil }
func (c *Conn) SetKeepAlive(bool) error            { return nil }

// Listener is a net.Listener that never accepts by itself (the harness hands
// connections to the proxy directly).
type Listener struct{ A string }

func (l Listener) Accept() (net.Conn, error) { select {} }
func (l Listener) Close() error              { return nil }
func (l Listener) Addr() net.Addr            { return addr{l.A} }

var _ = os.ErrDeadlineExceeded
