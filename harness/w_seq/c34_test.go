package wseq

import (
	"context"
	"errors"
	"fmt"
	"time"

	"github.com/XiaoMi/Gaea/backend"
	"github.com/XiaoMi/Gaea/models"
	"github.com/XiaoMi/Gaea/mysql"
	"github.com/XiaoMi/Gaea/proxy/sequence"

	"verif/harness/simkit"
)

// C34: 1-3 real MySQLSequence objects (one per simulated proxy) over fake
// master pools that share one model of the MYCAT_SEQUENCE row. NextSeq calls
// are interleaved at yield points; block fetches can fail in every way the
// property lists.

func init() {
	worlds["C34"] = &simkit.World{Property: "C34", Run: runC34, TraceCap: 2500, MinBudget: 500}
}

type seqTable struct {
	r       *simkit.Run
	cur     int64
	incr    int64
	faults  []string // scripted outcome of the next fetches ("" = ok)
	fetches int
	lastFaulty map[string]string // task -> fault kind of the fetch made during its current call
}

type seqPool struct{ t *seqTable }

func (p *seqPool) Open() error        { return nil }
func (p *seqPool) Addr() string       { return "master" }
func (p *seqPool) Datacenter() string { return "c3" }
func (p *seqPool) Close()             {}
func (p *seqPool) Get(ctx context.Context) (backend.PooledConnect, error) {
	return &seqConn{t: p.t}, nil
}
func (p *seqPool) GetCheck(ctx context.Context) (backend.PooledConnect, error) {
	return &seqConn{t: p.t}, nil
}
func (p *seqPool) Put(pc backend.PooledConnect)             {}
func (p *seqPool) SetCapacity(capacity int) (err error)     { return nil }
func (p *seqPool) SetIdleTimeout(idleTimeout time.Duration) {}
func (p *seqPool) StatsJSON() string                        { return "{}" }
func (p *seqPool) Capacity() int64                          { return 1 }
func (p *seqPool) Available() int64                         { return 1 }
func (p *seqPool) Active() int64                            { return 0 }
func (p *seqPool) InUse() int64                             { return 0 }
func (p *seqPool) MaxCap() int64                            { return 1 }
func (p *seqPool) WaitCount() int64                         { return 0 }
func (p *seqPool) WaitTime() time.Duration                  { return 0 }
func (p *seqPool) IdleTimeout() time.Duration               { return 0 }
func (p *seqPool) IdleClosed() int64                        { return 0 }
func (p *seqPool) SetLastChecked()                          {}
func (p *seqPool) GetLastChecked() int64                    { return 0 }

type seqConn struct{ t *seqTable }

func (c *seqConn) Execute(sql string, maxRows int) (*mysql.Result, error) {
	t := c.t
	t.fetches++
	kind := ""
	if len(t.faults) > 0 {
		kind = t.faults[0]
		t.faults = t.faults[1:]
	}
	task := t.r.CurrentTask()
	t.lastFaulty[task] = kind
	var val interface{}
	switch kind {
	case "":
		// mycat_seq_nextval: UPDATE ... SET current_value = current_value + increment; return 'current,increment'
		t.cur += t.incr
		val = fmt.Sprintf("%d,%d", t.cur, t.incr)
	case "exec-error":
		t.r.Fault("fetch-exec-error")
		return nil, errors.New("ERROR 1205: Lock wait timeout exceeded")
	case "row-missing":
		t.r.Fault("fetch-row-missing")
		val = "-999999999,null"
	case "non-numeric":
		t.r.Fault("fetch-non-numeric")
		val = "abc,def"
	case "non-numeric-incr":
		t.r.Fault("fetch-non-numeric-incr")
		val = fmt.Sprintf("%d,x", t.cur)
	case "one-field":
		t.r.Fault("fetch-one-field")
		val = fmt.Sprintf("%d", t.cur)
	case "zero-incr":
		t.r.Fault("fetch-zero-increment")
		val = fmt.Sprintf("%d,0", t.cur)
	case "negative-incr":
		t.r.Fault("fetch-negative-increment")
		// the stored row is left alone: what matters is that the proxy refuses the reply
		val = fmt.Sprintf("%d,-3", t.cur)
	case "null":
		t.r.Fault("fetch-null")
		val = nil
	}
	t.r.Logf("fetch #%d by %s kind=%q -> %v", t.fetches, task, kind, val)
	rs := &mysql.Resultset{Fields: []*mysql.Field{{Name: []byte("seq_val")}}, FieldNames: map[string]int{"seq_val": 0}, Values: [][]interface{}{{val}}}
	return &mysql.Result{Resultset: rs}, nil
}
func (c *seqConn) Recycle()              {}
func (c *seqConn) Reconnect() error      { return nil }
func (c *seqConn) Close()                {}
func (c *seqConn) IsClosed() bool        { return false }
func (c *seqConn) UseDB(db string) error { return nil }
func (c *seqConn) ExecuteWithTimeout(sql string, maxRows int, timeout time.Duration) (*mysql.Result, error) {
	return c.Execute(sql, maxRows)
}
func (c *seqConn) SetAutoCommit(v uint8) error                 { return nil }
func (c *seqConn) Begin() error                                { return nil }
func (c *seqConn) Commit() error                               { return nil }
func (c *seqConn) Rollback() error                             { return nil }
func (c *seqConn) Ping() error                                 { return nil }
func (c *seqConn) PingWithTimeout(timeout time.Duration) error { return nil }
func (c *seqConn) SetCharset(charset string, collation mysql.CollationID) (bool, error) {
	return false, nil
}
func (c *seqConn) FieldList(table string, wildcard string) ([]*mysql.Field, error) { return nil, nil }
func (c *seqConn) GetAddr() string                                                 { return "master" }
func (c *seqConn) SetSessionVariables(frontend *mysql.SessionVariables) (bool, error) {
	return false, nil
}
func (c *seqConn) SyncSessionVariables(frontend *mysql.SessionVariables) error { return nil }
func (c *seqConn) WriteSetStatement() error                                    { return nil }
func (c *seqConn) GetConnectionID() int64                                      { return 1 }
func (c *seqConn) GetReturnTime() time.Time                                    { return time.Time{} }
func (c *seqConn) MoreRowsExist() bool                                         { return false }
func (c *seqConn) MoreResultsExist() bool                                      { return false }
func (c *seqConn) FetchMoreRows(result *mysql.Result, maxRows int) error       { return nil }
func (c *seqConn) ReadMoreResult(maxRows int) (*mysql.Result, error)           { return nil, nil }

func runC34(r *simkit.Run) {
	tp := r.Tape
	nProxies := tp.Range(1, 3)
	block := int64(tp.Range(1, 5))
	tasksPer := tp.Range(1, 2)
	callsPer := tp.Range(2, 8)
	withFaults := tp.Chance(1, 2)
	if simkit.Params["partition"] == "fault-free" {
		withFaults = false
	}
	r.SetSiteDensity([]int{4, 4, 2}[tp.Choose(3)], uint32(tp.Choose(1<<16)))
	tab := &seqTable{r: r, cur: int64([]int{0, 100, 1 << 40}[tp.Choose(3)]), incr: block, lastFaulty: map[string]string{}}
	if withFaults {
		kinds := []string{"", "", "exec-error", "row-missing", "non-numeric", "non-numeric-incr", "one-field", "zero-incr", "negative-incr", "null"}
		n := tp.Range(1, 6)
		for i := 0; i < n; i++ {
			tab.faults = append(tab.faults, kinds[tp.Choose(len(kinds))])
		}
	}
	cfg := fmt.Sprintf("proxies=%d block=%d tasksPerProxy=%d calls=%d start=%d faults=%v", nProxies, block, tasksPer, callsPer, tab.cur, tab.faults)
	r.Logf("config %s", cfg)
	issued := map[int64]string{}
	total, errorsSeen := 0, 0
	for p := 0; p < nProxies; p++ {
		sl := &backend.Slice{Cfg: models.Slice{Name: "slice-0"}, Namespace: "ns"}
		node := &backend.NodeInfo{Address: "master", ConnPool: &seqPool{t: tab}, Status: backend.StatusUp}
		sl.Master = &backend.DBInfo{Nodes: []*backend.NodeInfo{node}}
		seq := sequence.NewMySQLSequence(sl, "T_SEQ", "id", 0)
		lastOfProxy := int64(-1 << 62)
		for t := 0; t < tasksPer; t++ {
			name := fmt.Sprintf("p%dt%d", p, t)
			single := tasksPer == 1
			r.Go(name, func() {
				last := int64(-1 << 62)
				for i := 0; i < callsPer && !r.Failed(); i++ {
					delete(tab.lastFaulty, name)
					v, err := seq.NextSeq()
					kind, fetched := tab.lastFaulty[name]
					total++
					if err != nil {
						errorsSeen++
						r.Logf("%s NextSeq -> error %v", name, err)
						if !fetched || kind == "" {
							r.Failf("error-without-fault", "%s: NextSeq failed (%v) although no fetch of this call was faulty", name, err)
						}
						simkit.Pause(r, "idle:"+name)
						continue
					}
					r.Logf("%s NextSeq -> %d", name, v)
					if fetched && kind != "" {
						r.Failf("value-after-faulty-fetch", "%s: the block fetch of this call was faulty (%s) but NextSeq returned the value %d instead of an error", name, kind, v)
					}
					if who, dup := issued[v]; dup {
						r.Failf("duplicate-value", "value %d was handed out to %s and again to %s", v, who, name)
					}
					issued[v] = name
					if v <= last {
						r.Failf("not-increasing", "%s received %d after %d from the same proxy", name, v, last)
					}
					last = v
					if single {
						if v <= lastOfProxy {
							r.Failf("not-increasing", "proxy %d handed out %d after %d", p, v, lastOfProxy)
						}
						lastOfProxy = v
					}
					simkit.Pause(r, "idle:"+name)
				}
			})
		}
	}
	for r.Steps < 20000 && !r.Failed() {
		r.Settle()
		en := r.Enabled()
		if len(en) == 0 {
			break
		}
		r.Release(en[tp.Choose(len(en))])
	}
	r.Nontrivial = nProxies*tasksPer > 1 && tab.fetches > 1
	if errorsSeen > 0 {
		r.Probe("request-failed-after-faulty-fetch")
	}
	if nProxies > 1 {
		r.Probe("several-proxies")
	}
	r.State(simkit.Hash(cfg))
	r.Sample = map[string]interface{}{"config": cfg, "calls": total, "errors": errorsSeen, "fetches": tab.fetches, "trace_tail": tail(r.Trace(), 15)}
}

func tail(s []string, n int) []string {
	if len(s) > n {
		return s[len(s)-n:]
	}
	return s
}
