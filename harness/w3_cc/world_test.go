package w3cc

import (
	"encoding/json"
	"errors"
	"fmt"
	"net/http"
	"net/http/httptest"
	"sort"
	"strings"
	"time"

	"github.com/XiaoMi/Gaea/models"
	"github.com/XiaoMi/Gaea/proxy/server"
	"github.com/XiaoMi/Gaea/util/requests"
	"github.com/XiaoMi/Gaea/util/verifhook"

	"verif/harness/simcoord"
	"verif/harness/simkit"
	"verif/harness/simnet"
)

// Control-plane world: the real cc/service code talks to a simulated coordinator (harness/simcoord behind
// models.Client) and, through a simulated HTTP transport, to the real admin API (gin routes and handlers) of
// up to three real proxies (Manager + Server). The transport loses requests or responses, times out, and
// proxies crash and restart from the coordinator.

const (
	cluster    = "simcluster"
	encryptKey = "1234abcd5678efg*"
	adminUser  = "admin"
	adminPass  = "admin-pw"
)

// proxyNode is one simulated proxy process.
type proxyNode struct {
	idx     int
	host    string // ip:adminPort as registered in the coordinator
	up      bool
	manager *server.Manager
	srv     *server.Server
	handler http.Handler
	starts  int
}

type ccWorld struct {
	everNS  []*server.Namespace // every namespace object any proxy of the run built
	r       *simkit.Run
	coord   *simcoord.Coordinator
	proxies []*proxyNode
	cfg     *models.CCConfig
	// fault decides what happens to one HTTP exchange: "" none | request-lost | response-lost | timeout | crash-before | crash-after
	fault func(p *proxyNode, method, path string) string
	// exchanges of the change in progress, for the oracle and the findings
	log []string
}

func root() string { return "/" + cluster }

func nsConfig(name string, version int) *models.Namespace {
	ns := &models.Namespace{
		Name:              name,
		Online:            true,
		AllowedDBS:        map[string]bool{"db_" + name: true},
		DefaultPhyDBS:     map[string]string{"db_" + name: "db_" + name},
		SlowSQLTime:       "1000",
		DefaultSlice:      "slice-0",
		DefaultCharset:    "utf8mb4",
		DefaultCollation:  "utf8mb4_general_ci",
		MaxSqlExecuteTime: version,
		MaxSqlResultSize:  10000,
		DownAfterNoAlive:  32,
		Users: []*models.User{
			{UserName: "u_" + name, Password: fmt.Sprintf("p%d", version), Namespace: name, RWFlag: 2, RWSplit: 0},
		},
		Slices: []*models.Slice{{
			Name: "slice-0", UserName: "root", Password: "root",
			Master:   fmt.Sprintf("%s-m0.sim:3306#c3", name),
			Capacity: 2, MaxCapacity: 4, IdleTimeout: 3600,
		}},
	}
	return ns
}

func newCCWorld(r *simkit.Run, nProxies int) *ccWorld {
	w := &ccWorld{r: r, coord: simcoord.New()}
	server.VerifWheelBuckets = 8 // no client sessions in this world
	w.coord.Log = r.Logf
	verifhook.Hooks["models.NewClient"] = func(configType, addr, username, password, root string) (models.Client, error) {
		return &simcoord.Client{C: w.coord, Root: root}, nil
	}
	verifhook.Hooks["server.NewNamespace"] = func(v interface{}) {
		if n, ok := v.(*server.Namespace); ok && n != nil {
			w.everNS = append(w.everNS, n)
		}
	}
	verifhook.DialFn = simnet.New().Dial // backends do not exist: every dial is refused
	w.cfg = &models.CCConfig{CoordinatorType: models.ConfigEtcd, CoordinatorAddr: "http://coordinator.sim:2379", CoordinatorRoot: "/gaea_cluster",
		ProxyUserName: adminUser, ProxyPassword: adminPass, EncryptKey: encryptKey, DefaultCluster: cluster}
	requests.VerifSetTransport(w)
	for i := 0; i < nProxies; i++ {
		p := &proxyNode{idx: i, host: fmt.Sprintf("10.0.1.%d:%d", 10+i, 13307)}
		w.proxies = append(w.proxies, p)
	}
	return w
}

func (w *ccWorld) close() {
	delete(verifhook.Hooks, "models.NewClient")
	delete(verifhook.Hooks, "server.NewNamespace")
	for _, ns := range w.everNS {
		func() {
			defer func() { recover() }()
			ns.Close(false)
		}()
	}
	requests.VerifSetTransport(http.DefaultTransport)
	for _, p := range w.proxies {
		w.stop(p)
	}
	// replaced and deleted namespaces are closed by the proxies 60 simulated seconds after the change: let those
	// tasks (and the pool timers they stop) end inside the run, or they stay behind for the life of the worker
	w.r.FreeRun()
	simkit.Sleep(75 * time.Second)
}

// start boots a proxy: it loads every namespace from the coordinator, like a real proxy at start-up, and registers.
func (w *ccWorld) start(p *proxyNode) error {
	client := &simcoord.Client{C: w.coord, Root: root()}
	store := models.NewStore(client)
	nss, err := store.LoadNamespaces(encryptKey)
	if err != nil {
		return fmt.Errorf("proxy %d cannot load namespaces: %v", p.idx, err)
	}
	server.VerifResetConnID()
	m, err := server.VerifNewManager("c3", nss)
	if err != nil {
		return err
	}
	s, err := server.VerifNewServer(m, 3600, "", "5.7.25-gaea", p.host, simnet.Listener{A: p.host})
	if err != nil {
		return err
	}
	server.VerifSetEncryptKey(s, encryptKey)
	p.manager, p.srv = m, s
	p.handler = server.VerifNewAdminHandler(s, &models.Proxy{AdminUser: adminUser, AdminPassword: adminPass, ConfigType: models.ConfigEtcd,
		CoordinatorAddr: w.cfg.CoordinatorAddr, CoordinatorRoot: root()})
	p.up = true
	p.starts++
	ip, port, _ := strings.Cut(p.host, ":")
	metric := &models.ProxyMonitorMetric{Token: p.host, IP: ip, AdminPort: port, ProxyPort: "13306", StartTime: "sim"}
	return client.Update(store.ProxyPath(p.host), metric.Encode())
}

// stop is a crash: the process is gone, its registration stays (cc still lists it) until somebody removes it.
func (w *ccWorld) stop(p *proxyNode) {
	if !p.up {
		return
	}
	p.up = false
	if p.srv != nil {
		server.VerifStopServer(p.srv)
	}
	for _, ns := range server.VerifAllNamespaces(p.manager) {
		func() {
			defer func() { recover() }()
			ns.Close(false)
		}()
	}
	p.manager, p.srv, p.handler = nil, nil, nil
}

type netError struct {
	msg     string
	timeout bool
}

func (e netError) Error() string   { return e.msg }
func (e netError) Timeout() bool   { return e.timeout }
func (e netError) Temporary() bool { return e.timeout }

// RoundTrip is the simulated network between the control plane and the proxies' admin servers.
func (w *ccWorld) RoundTrip(req *http.Request) (*http.Response, error) {
	var p *proxyNode
	for _, q := range w.proxies {
		if q.host == req.URL.Host {
			p = q
		}
	}
	if p == nil {
		return nil, netError{msg: "dial tcp " + req.URL.Host + ": no route to host"}
	}
	// every exchange is a scheduling point: concurrent changes and the per-proxy goroutines of one change interleave here
	simkit.PauseAs(w.r, "cc>"+req.URL.Host, "http:"+req.URL.Host+req.URL.Path)
	path := req.URL.Path
	kind := "other"
	switch {
	case strings.Contains(path, "/config/prepare/"):
		kind = "prepare"
	case strings.Contains(path, "/config/commit/"):
		kind = "commit"
	case strings.Contains(path, "/namespace/delete/"):
		kind = "delete"
	case strings.HasSuffix(path, "/ping"):
		kind = "ping"
	}
	f := ""
	if w.fault != nil {
		f = w.fault(p, kind, path)
	}
	note := func(outcome string) {
		w.log = append(w.log, fmt.Sprintf("%s proxy%d %s", kind, p.idx, outcome))
		w.r.Logf("  http %s %s -> proxy%d: %s", req.Method, path, p.idx, outcome)
	}
	if f == "crash-before" {
		w.stop(p)
		w.r.Fault("proxy-crash")
	}
	if !p.up {
		note("connection refused")
		return nil, netError{msg: "dial tcp " + p.host + ": connect: connection refused"}
	}
	switch f {
	case "request-lost":
		w.r.Fault("request-lost")
		note("request lost")
		return nil, netError{msg: "read tcp " + p.host + ": connection reset by peer"}
	case "timeout-before":
		w.r.Fault("timeout")
		simkit.Sleep(31 * time.Second)
		note("timeout, request never arrived")
		return nil, netError{msg: "net/http: request canceled (Client.Timeout exceeded)", timeout: true}
	}
	rec := httptest.NewRecorder()
	panicked := func() (v interface{}) {
		// net/http's server recovers a panicking handler and drops the connection; the proxy process survives
		defer func() { v = recover() }()
		p.handler.ServeHTTP(rec, req)
		return nil
	}()
	if panicked != nil {
		w.r.Probe("admin-handler-panicked")
		note(fmt.Sprintf("the handler panicked (%v): connection closed without a response", panicked))
		return nil, netError{msg: "read tcp " + p.host + ": EOF"}
	}
	switch f {
	case "response-lost":
		w.r.Fault("response-lost")
		note(fmt.Sprintf("handled (%d) but the response was lost", rec.Code))
		return nil, netError{msg: "read tcp " + p.host + ": connection reset by peer"}
	case "timeout":
		w.r.Fault("timeout")
		simkit.Sleep(31 * time.Second)
		note(fmt.Sprintf("handled (%d) but the caller timed out", rec.Code))
		return nil, netError{msg: "net/http: request canceled (Client.Timeout exceeded)", timeout: true}
	case "crash-after":
		w.stop(p)
		w.r.Fault("proxy-crash")
		note(fmt.Sprintf("handled (%d), then the proxy crashed before answering", rec.Code))
		return nil, netError{msg: "read tcp " + p.host + ": EOF"}
	}
	note(fmt.Sprintf("%d %s", rec.Code, strings.TrimSpace(rec.Body.String())))
	resp := rec.Result()
	resp.Request = req
	return resp, nil
}

// storedVersion reads the version stamp of a namespace from the coordinator (0 = not stored).
func (w *ccWorld) storedVersion(name string) int {
	b := w.coord.Data[root()+"/namespace/"+name]
	if b == nil {
		return 0
	}
	var ns models.Namespace
	if err := json.Unmarshal(b, &ns); err != nil {
		return -1
	}
	return ns.MaxSqlExecuteTime
}

// storedContent loads the stored namespace the way a proxy does (decode, verify, decrypt) and compares its
// credentials with those of the given version; "" = equal.
func (w *ccWorld) storedContent(name string, version int) string {
	if version == 0 {
		return ""
	}
	store := models.NewStore(&simcoord.Client{C: w.coord, Root: root()})
	got, err := store.LoadNamespace(encryptKey, name)
	if err != nil {
		return fmt.Sprintf("the stored namespace cannot be loaded: %v", err)
	}
	want := nsConfig(name, version)
	if len(got.Users) != len(want.Users) || got.Users[0].UserName != want.Users[0].UserName || got.Users[0].Password != want.Users[0].Password {
		return fmt.Sprintf("the stored namespace decrypts to user %q / password %q, submitted were %q / %q", got.Users[0].UserName, got.Users[0].Password, want.Users[0].UserName, want.Users[0].Password)
	}
	if len(got.Slices) != 1 || got.Slices[0].UserName != "root" || got.Slices[0].Password != "root" {
		return fmt.Sprintf("the stored namespace decrypts to backend credentials %q / %q", got.Slices[0].UserName, got.Slices[0].Password)
	}
	return ""
}

// runningVersion is the version a live proxy serves (0 = the namespace does not exist there).
func (w *ccWorld) runningVersion(p *proxyNode, name string) int {
	ns := p.manager.GetNamespace(name)
	if ns == nil {
		return 0
	}
	return server.VerifNamespaceMaxExecuteTime(ns)
}

func (w *ccWorld) state(name string) string {
	var s []string
	s = append(s, fmt.Sprintf("store=v%d", w.storedVersion(name)))
	for _, p := range w.proxies {
		if p.up {
			s = append(s, fmt.Sprintf("proxy%d=v%d", p.idx, w.runningVersion(p, name)))
		} else {
			s = append(s, fmt.Sprintf("proxy%d=down", p.idx))
		}
	}
	sort.Strings(s[1:])
	return strings.Join(s, " ")
}

var errNotUsed = errors.New("unused")

// driveBusyW3 releases parked goroutines one at a time (tape choice) and advances the clock while tasks wait on it.
func driveBusyW3(r *simkit.Run, tp *simkit.Tape, maxSteps int, busy func() bool) {
	idle := 0
	for r.Steps < maxSteps && !r.Failed() {
		r.Settle()
		en := r.Enabled()
		if len(en) == 0 {
			if r.ParkedCount() == 0 && idle > 3 && !busy() {
				return
			}
			idle++
			if idle > 600 {
				return
			}
			r.Advance(200 * time.Millisecond)
			continue
		}
		idle = 0
		r.Release(en[tp.Choose(len(en))])
	}
}
