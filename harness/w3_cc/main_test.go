package w3cc

import (
	"testing"

	"verif/harness/simkit"
)

var worlds = map[string]*simkit.World{}

func TestWorker(t *testing.T) { simkit.WorkerMain(t, worlds) }
