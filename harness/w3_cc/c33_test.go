package w3cc

import (
	"crypto/sha256"
	"fmt"
	"os"
	"path/filepath"
	"sort"
	"strings"

	"github.com/XiaoMi/Gaea/cc/service"
	"github.com/XiaoMi/Gaea/models"
	"github.com/XiaoMi/Gaea/proxy/server"

	"verif/harness/simcoord"
	"verif/harness/simkit"
)

// C33: stored configurations round-trip exactly and stay inside the storage area.

func init() {
	worlds["C33"] = &simkit.World{Property: "C33", Run: runC33, Classify: func(*simkit.Run) {}, TraceCap: 2500, MinBudget: 150}
}

var c33keys = []string{"1234abcd5678efg*", "1234abcd5678efg*87654321", "1234abcd5678efg*1234abcd5678efg*"}

var c33creds = []string{"a", "user", "p@ss w0rd", "0123456789abcdef", "0123456789abcdef0", "0123456789abcdef0123456789abcdef", "pässwörd", "密码", "tab\there", "quote'\"\\", "\x01\x02\xfe\xff", "x:y,z;", "a\x00b", "*A4B6157319038724E3560894F7F932C8886EBFCF", strings.Repeat("k", 100)}

// c33sandbox is a scratch directory tree with canary files around the storage directory.
type c33sandbox struct {
	root, storage string
}

func newSandbox() (*c33sandbox, error) {
	root, err := os.MkdirTemp("", "verif-c33-")
	if err != nil {
		return nil, err
	}
	s := &c33sandbox{root: root, storage: filepath.Join(root, "a", "b", "storage")}
	if err := os.MkdirAll(s.storage, 0o755); err != nil {
		return nil, err
	}
	for _, f := range []string{"canary.json", "a/canary.json", "a/b/canary.json", "a/b/storage.json", "a/b.json", "a/b/neighbour/secret.json", "a.json",
		// siblings whose names begin with the storage directory's name
		"a/b/storage_backup/x.json", "a/b/storage_backup/canary.json", "a/b/storage2.json", "a/b/storage2/canary.json"} {
		p := filepath.Join(root, f)
		os.MkdirAll(filepath.Dir(p), 0o755)
		if err := os.WriteFile(p, []byte("CANARY "+f), 0o644); err != nil {
			return nil, err
		}
	}
	return s, nil
}

// outside is a fingerprint of everything in the sandbox that is not under the storage directory.
func (s *c33sandbox) outside() map[string]string {
	out := map[string]string{}
	filepath.Walk(s.root, func(p string, info os.FileInfo, err error) error {
		if err != nil {
			return nil
		}
		rel, _ := filepath.Rel(s.root, p)
		if strings.HasPrefix(p, s.storage+string(filepath.Separator)) || p == s.storage {
			return nil
		}
		if info.IsDir() {
			out[rel+"/"] = "dir"
			return nil
		}
		b, _ := os.ReadFile(p)
		out[rel] = fmt.Sprintf("%x", sha256.Sum256(b))
		return nil
	})
	return out
}

func diffMaps(a, b map[string]string) []string {
	var d []string
	for k, v := range a {
		if w, ok := b[k]; !ok {
			d = append(d, "removed "+k)
		} else if w != v {
			d = append(d, "changed "+k)
		}
	}
	for k := range b {
		if _, ok := a[k]; !ok {
			d = append(d, "created "+k)
		}
	}
	sort.Strings(d)
	return d
}

func c33ns(tp *simkit.Tape, name string, version int) *models.Namespace {
	ns := nsConfig(name, version)
	ns.Users = nil
	n := tp.Range(1, 3)
	seen := map[string]bool{}
	for i := 0; i < n; i++ {
		u := strings.TrimSpace(c33creds[tp.Choose(len(c33creds))])
		if u == "" || seen[u] {
			u = fmt.Sprintf("user%d", i)
		}
		seen[u] = true
		pw := c33creds[tp.Choose(len(c33creds))]
		if strings.TrimSpace(pw) != pw || pw == "" {
			pw = "pw"
		}
		ns.Users = append(ns.Users, &models.User{UserName: u, Password: pw, Namespace: name, RWFlag: 2, RWSplit: 0})
	}
	ns.Slices[0].UserName = c33creds[tp.Choose(len(c33creds))]
	ns.Slices[0].Password = append([]string{""}, c33creds...)[tp.Choose(len(c33creds)+1)] // a backend account may have no password
	return ns
}

func credsOf(ns *models.Namespace) string {
	var s []string
	for _, u := range ns.Users {
		s = append(s, fmt.Sprintf("user %q/%q", u.UserName, u.Password))
	}
	for _, sl := range ns.Slices {
		s = append(s, fmt.Sprintf("slice %s %q/%q", sl.Name, sl.UserName, sl.Password))
	}
	s = append(s, fmt.Sprintf("v%d", ns.MaxSqlExecuteTime))
	return strings.Join(s, "; ")
}

// guarded runs f and turns a panic into a violation.
func guarded(r *simkit.Run, what string, f func()) {
	defer func() {
		if e := recover(); e != nil {
			r.Failf("C33-panic", "%s panicked: %v", what, e)
		}
	}()
	f()
}

func runC33(r *simkit.Run) {
	tp := r.Tape
	w := newCCWorld(r, 0)
	defer w.close()
	r.SetSiteDensity(0, 0)
	key := c33keys[tp.Choose(len(c33keys))]
	w.cfg.EncryptKey = key
	sb, err := newSandbox()
	if err != nil {
		r.Failf("harness", "sandbox: %v", err)
		return
	}
	defer os.RemoveAll(sb.root)
	base := sb.outside()
	cfgText := fmt.Sprintf("keyLength=%d", len(key))
	// the sandbox has a random name: keep it out of the event log
	san := func(x string) string { return strings.ReplaceAll(x, sb.root, "<sandbox>") }
	r.Logf("config %s storage=%s", cfgText, san(sb.storage))
	finished := false
	compared := 0
	r.Go("control", func() {
		defer func() { finished = true }()
		submitted := map[string]string{} // name -> credentials as submitted
		nOps := tp.Range(3, 9)
		version := 1
		for i := 0; i < nOps && !r.Failed(); i++ {
			switch k := tp.Choose(8); {
			case k <= 2 || len(submitted) == 0:
				// save through the control plane
				name := []string{"nsa", "nsb", "nsc"}[tp.Choose(3)]
				version++
				ns := c33ns(tp, name, version)
				if _, have := submitted[name]; have && tp.Chance(1, 3) {
					// an administrator edits what was stored: the namespace is loaded (decrypted), one setting is
					// changed and the same object is submitted again
					var lerr error
					guarded(r, "LoadNamespace", func() {
						ns, lerr = models.NewStore(&simcoord.Client{C: w.coord, Root: root()}).LoadNamespace(key, name)
					})
					if r.Failed() {
						return
					}
					if lerr != nil || ns == nil {
						r.Failf("C33-saved-namespace-cannot-be-loaded", "namespace %s was saved but loading it for an edit fails: %v", name, lerr)
						return
					}
					ns.MaxSqlExecuteTime = version
					r.Probe("loaded-namespace-edited-and-resubmitted")
				}
				want := credsOf(ns)
				err := service.ModifyNamespace(ns, w.cfg, cluster)
				r.Sched("op", fmt.Sprintf("save/%v", err == nil))
				r.Logf("save %s: %s -> %s", name, want, errTextW3(err))
				if err != nil {
					if strings.Contains(err.Error(), "duplicate") {
						continue // the same user/password pair exists in another namespace
					}
					r.Failf("C33-valid-namespace-refused", "ModifyNamespace(%s: %s) failed: %v", name, want, err)
					return
				}
				submitted[name] = want
				// load it back from the coordinator the way a proxy does
				var got *models.Namespace
				var lerr error
				guarded(r, "LoadNamespace", func() {
					got, lerr = models.NewStore(&simcoord.Client{C: w.coord, Root: root()}).LoadNamespace(key, name)
				})
				if r.Failed() {
					return
				}
				if lerr != nil {
					r.Failf("C33-saved-namespace-cannot-be-loaded", "namespace %s (%s) was saved but loading it from the coordinator fails: %v", name, want, lerr)
					return
				}
				if g := credsOf(got); g != want {
					r.Failf("C33-round-trip-differs", "namespace %s was submitted as [%s] and loads from the coordinator as [%s] (key of %d bytes)", name, want, g, len(key))
					return
				}
				compared++
				r.Probe("round-trip-coordinator")
			case k <= 4:
				// the proxy's local copy: synchronise, then start from it as if the coordinator were gone
				local, err := models.NewLocalClient(sb.storage, root())
				if err != nil {
					r.Failf("harness", "local client: %v", err)
					return
				}
				var synced map[string]*models.Namespace
				var serr error
				guarded(r, "SyncNamespaces", func() {
					synced, serr = server.SyncNamespaces(&simcoord.Client{C: w.coord, Root: root()}, local, key)
				})
				if r.Failed() {
					return
				}
				r.Sched("op", fmt.Sprintf("sync/%v", serr == nil))
				r.Logf("sync -> %d namespaces, %s", len(synced), san(errTextW3(serr)))
				if serr != nil {
					r.Failf("C33-saved-namespace-cannot-be-loaded", "SyncNamespaces failed: %v", serr)
					return
				}
				var fromLocal map[string]*models.Namespace
				var lerr error
				guarded(r, "LoadDecryptNamespaces(local)", func() {
					fromLocal, lerr = server.LoadDecryptNamespaces(local, key)
				})
				if r.Failed() {
					return
				}
				if lerr != nil {
					r.Failf("C33-local-copy-cannot-be-loaded", "the local copy written by SyncNamespaces cannot be loaded: %v", lerr)
					return
				}
				for name, want := range submitted {
					for src, m := range map[string]map[string]*models.Namespace{"SyncNamespaces": synced, "the local copy": fromLocal} {
						var got *models.Namespace
						for k, v := range m {
							if filepath.Base(k) == name || k == name {
								got = v
							}
						}
						if got == nil {
							r.Failf("C33-round-trip-differs", "namespace %s is missing from %s (have %v)", name, src, keysOf(m))
							return
						}
						if g := credsOf(got); g != want {
							r.Failf("C33-round-trip-differs", "namespace %s was submitted as [%s] and comes back from %s as [%s]", name, want, src, g)
							return
						}
					}
				}
				compared++
				r.Probe("round-trip-local-copy")
			case k == 5:
				// damaged stored bytes or a wrong key: an error or data, never a crash
				var names []string
				for n := range submitted {
					names = append(names, n)
				}
				sort.Strings(names)
				name := names[tp.Choose(len(names))]
				mode := tp.Choose(4)
				usedKey := key
				w.coord.Decide = func(op, path string) simcoord.Fault {
					if op != "read" {
						return simcoord.None
					}
					switch mode {
					case 0:
						return simcoord.Corrupt
					case 1:
						return simcoord.Truncate
					case 2:
						return simcoord.Stale
					}
					return simcoord.None
				}
				if mode == 3 {
					usedKey = c33keys[(tp.Choose(2)+1+indexOf(c33keys, key))%len(c33keys)]
					r.Fault("wrong-key")
				} else {
					r.Fault([]string{"stored-bytes-corrupted", "stored-bytes-truncated", "stale-read"}[mode])
				}
				guarded(r, "LoadNamespace of damaged data", func() {
					got, lerr := models.NewStore(&simcoord.Client{C: w.coord, Root: root()}).LoadNamespace(usedKey, name)
					r.Logf("damaged load (mode %d) of %s -> %v, %s", mode, name, got != nil, errTextW3(lerr))
				})
				w.coord.Decide = nil
				r.Sched("op", fmt.Sprintf("damaged/%d", mode))
			default:
				// hostile names through the local client
				local, err := models.NewLocalClient(sb.storage, root())
				if err != nil {
					r.Failf("harness", "local client: %v", err)
					return
				}
				hostile := []string{"..", "../", "./..", "../canary", "../../canary", "../../../canary", "a/../../b", "x/../..", "/etc/verif-c33-should-not-exist", "/" + filepath.Join(sb.root, "canary"),
					root() + "/namespace/../../..", root() + "/namespace/../../../canary", "ns with space", "ns\ttab", "名字", "ns*star", "ns|pipe", "ns?q", strings.Repeat("n", 1100), "a//b", "./a", "a/./b", "..a", "a..", ".hidden",
					"../storage_backup/x", "../storage_backup/canary", "../storage_backup", "../storage", "../storage2", "../storage2/canary", root() + "/../../storage2/canary"}
				p := hostile[tp.Choose(len(hostile))]
				op := tp.Choose(6)
				guarded(r, "local client with a hostile path", func() {
					var oerr error
					var data []byte
					var list []string
					switch op {
					case 0:
						oerr = local.Update(p, []byte("OVERWRITTEN"))
					case 1:
						oerr = local.Create(p, []byte("OVERWRITTEN"))
					case 2:
						data, oerr = local.Read(p)
					case 3:
						oerr = local.Delete(p)
					case 4:
						list, oerr = local.List(p)
					default:
						oerr = local.Clean(p)
					}
					r.Logf("local op %d on %q -> %s (%d bytes, %d entries)", op, san(head1W3(p)), san(errTextW3(oerr)), len(data), len(list))
					if strings.Contains(string(data), "CANARY") {
						r.Failf("C33-read-outside-storage", "Read(%q) returned the content of a file outside the storage directory: %q", p, data)
					}
					for _, l := range list {
						if strings.Contains(l, "canary") || strings.Contains(l, "neighbour") || strings.Contains(l, "storage.json") || strings.Contains(l, "storage_backup") || strings.Contains(l, "storage2") {
							r.Failf("C33-read-outside-storage", "List(%q) enumerates files outside the storage directory: %v", p, list)
						}
					}
				})
				if r.Failed() {
					return
				}
				if d := diffMaps(base, sb.outside()); len(d) > 0 {
					r.Failf("C33-write-outside-storage", "local client operation %d on %q changed files outside the storage directory %s: %v", op, p, sb.storage, d)
					return
				}
				r.Probe("hostile-path")
				r.Sched("op", fmt.Sprintf("hostile/%d", op))
			}
		}
		if d := diffMaps(base, sb.outside()); len(d) > 0 && !r.Failed() {
			r.Failf("C33-write-outside-storage", "files outside the storage directory %s changed: %v", sb.storage, d)
		}
	})
	driveBusyW3(r, tp, 3000, func() bool { return !finished })
	r.Nontrivial = compared > 0
	r.State(simkit.Hash(cfgText + fmt.Sprint(compared)))
	r.Sample = map[string]interface{}{"config": cfgText, "round_trips_compared": compared, "trace_head": headW3(r.Trace(), 30)}
}

func keysOf(m map[string]*models.Namespace) []string {
	var k []string
	for n := range m {
		k = append(k, n)
	}
	sort.Strings(k)
	return k
}

func indexOf(s []string, x string) int {
	for i, v := range s {
		if v == x {
			return i
		}
	}
	return 0
}

func head1W3(s string) string {
	if len(s) > 60 {
		return s[:60] + "..."
	}
	return s
}
