package w3cc

import (
	"fmt"
	"strings"

	"github.com/XiaoMi/Gaea/cc/service"

	"verif/harness/simkit"
)

// C32: a namespace change is applied on all proxies or on none.

func init() {
	worlds["C32"] = &simkit.World{Property: "C32", Run: runC32, Classify: classifyC32, TraceCap: 3000, MinBudget: 200}
}

type c32state struct{ finding string }

func classifyC32(r *simkit.Run) {
	if s, ok := r.World.(*c32state); ok && r.Viol != nil {
		r.Viol.Finding = s.finding
	}
}

var c32faults = []string{"request-lost", "response-lost", "timeout", "timeout-before", "crash-before", "crash-after"}

func runC32(r *simkit.Run) {
	tp := r.Tape
	st := &c32state{}
	r.World = st
	strict := simkit.Params["partition"] == "strict"
	nP := tp.Range(1, 3)
	w := newCCWorld(r, nP)
	defer w.close()
	r.SetSiteDensity(0, 0)
	names := []string{"nsa", "nsb"}
	committed := map[string]int{}
	nextVersion := 2
	nChanges := tp.Range(2, 6)
	cfgText := fmt.Sprintf("proxies=%d changes=%d strict=%v", nP, nChanges, strict)
	r.Logf("config %s", cfgText)
	finished := false
	applied, aborted := 0, 0

	// check compares store and every live proxy with the version the reference expects
	check := func(what, name string, expect int, err error, commitFault, concurrent bool) bool {
		bad := ""
		if v := w.storedVersion(name); v != expect {
			bad = fmt.Sprintf("the coordinator stores v%d", v)
		} else if c := w.storedContent(name, expect); c != "" {
			bad = c
		}
		for _, p := range w.proxies {
			if p.up && expect > 0 && w.runningVersion(p, name) == expect {
				if ns := p.manager.GetNamespaceByUser("u_"+name, fmt.Sprintf("p%d", expect)); ns != name {
					bad += fmt.Sprintf(" proxy%d does not know user u_%s/p%d of that version", p.idx, name, expect)
				}
			}
		}
		for _, p := range w.proxies {
			if p.up {
				if v := w.runningVersion(p, name); v != expect {
					bad += fmt.Sprintf(" proxy%d runs v%d", p.idx, v)
				}
			}
		}
		if bad == "" {
			return true
		}
		switch {
		case concurrent:
			st.finding = "C32-F3"
		case commitFault:
			st.finding = "C32-F1"
		}
		verdict := "reported success"
		clause := "C32-success-but-not-everywhere"
		if err != nil {
			verdict = "reported failure (" + errTextW3(err) + ")"
			clause = "C32-failure-but-not-rolled-back"
		}
		r.Failf(clause, "%s of %s: the control plane %s, so store and every live proxy must hold v%d, but %s; state: %s; exchanges: %v", what, name, verdict, expect, strings.TrimSpace(bad), w.state(name), w.log)
		return false
	}

	r.Go("control", func() {
		defer func() { finished = true }()
		// initial content: stored before any proxy exists
		for _, n := range names[:tp.Range(1, 2)] {
			if err := service.ModifyNamespace(nsConfig(n, 1), w.cfg, cluster); err != nil {
				r.Failf("harness", "initial save of %s: %v", n, err)
				return
			}
			committed[n] = 1
		}
		for _, p := range w.proxies {
			if err := w.start(p); err != nil {
				r.Failf("harness", "start proxy%d: %v", p.idx, err)
				return
			}
		}
		for c := 0; c < nChanges && !r.Failed(); c++ {
			// restart crashed proxies now and then (they load the stored configuration)
			for _, p := range w.proxies {
				if !p.up && tp.Chance(1, 2) {
					if err := w.start(p); err != nil {
						r.Failf("harness", "restart proxy%d: %v", p.idx, err)
						return
					}
					r.Fault("proxy-restart")
					r.Logf("proxy%d restarted: %s", p.idx, w.state("nsa"))
				}
			}
			budget := 0
			if tp.Chance(2, 3) {
				budget = tp.Range(1, 2)
			}
			commitFault := false
			// sometimes one proxy is cut off from the control plane for the whole change (alive, serving its
			// clients, but every request to its admin port is lost): no number of retries reaches it
			cutOff := -1
			if !strict && tp.Chance(1, 6) {
				cutOff = tp.Choose(nP)
				r.Fault("proxy-unreachable-for-the-whole-change")
			}
			w.fault = func(p *proxyNode, kind, path string) string {
				if p.idx == cutOff && kind != "other" {
					for _, l := range w.log {
						if strings.HasPrefix(l, fmt.Sprintf("prepare proxy%d 200", p.idx)) {
							commitFault = true // (cannot happen: its prepare is never answered)
						}
					}
					return "request-lost"
				}
				if budget == 0 || kind == "other" || !tp.Chance(1, 4) {
					return ""
				}
				// the commit phase of a proxy begins once its prepare was answered 200 (its next ping already belongs to it)
				inCommit := kind == "commit"
				for _, l := range w.log {
					if strings.HasPrefix(l, fmt.Sprintf("prepare proxy%d 200", p.idx)) {
						inCommit = true
					}
				}
				if strict && inCommit {
					return "" // the strict partition leaves the commit phase alone
				}
				budget--
				if inCommit {
					commitFault = true
				}
				return c32faults[tp.Choose(len(c32faults))]
			}
			w.log = nil
			name := names[tp.Choose(len(names))]
			allUp := true
			for _, p := range w.proxies {
				allUp = allUp && p.up
			}
			if tp.Chance(1, 8) && committed[name] > 0 && (!strict || (budget == 0 && allUp)) {
				// a delete; in the strict partition only without faults and with every proxy up
				if strict {
					w.fault = nil
				}
				prev := committed[name]
				err := service.DelNamespace(name, w.cfg, cluster)
				r.Sched("op", fmt.Sprintf("delete/%s/%v", name, err == nil))
				r.Logf("DelNamespace(%s) -> %s; %s", name, errTextW3(err), w.state(name))
				if err != nil {
					aborted++
					if strict {
						r.Failf("C32-fault-free-change-failed", "DelNamespace(%s) without any fault failed: %v", name, err)
						return
					}
					// a failed delete must have changed nothing
					bad := w.storedVersion(name) != prev
					for _, p := range w.proxies {
						bad = bad || (p.up && w.runningVersion(p, name) != prev)
					}
					if bad {
						st.finding = "C32-F2"
						r.Failf("C32-failure-but-not-rolled-back", "delete of %s: the control plane reported failure (%s), so store and every live proxy must still hold v%d; state: %s; exchanges: %v", name, errTextW3(err), prev, w.state(name), w.log)
						return
					}
					continue
				}
				if !check("delete", name, 0, nil, false, false) {
					return
				}
				committed[name] = 0
				applied++
				continue
			}
			if !strict && allUp && budget == 0 && tp.Chance(1, 3) {
				// two administrators change different namespaces at the same time
				w.fault = nil
				other := names[0]
				if name == other {
					other = names[1]
				}
				v1, v2 := nextVersion, nextVersion+1
				nextVersion += 2
				p1, p2 := committed[name], committed[other]
				var err2 error
				done2 := make(chan struct{})
				r.Go(fmt.Sprintf("control-b%d", c), func() {
					defer close(done2)
					simkit.Pause(r, "start:control-b")
					err2 = service.ModifyNamespace(nsConfig(other, v2), w.cfg, cluster)
				})
				err1 := service.ModifyNamespace(nsConfig(name, v1), w.cfg, cluster)
				<-done2 // blocked, not parked: the scheduler advances the clock for the other task's timeouts
				r.Fault("concurrent-changes")
				r.Sched("op", fmt.Sprintf("concurrent/%v/%v", err1 == nil, err2 == nil))
				r.Logf("concurrent ModifyNamespace(%s v%d) -> %s and ModifyNamespace(%s v%d) -> %s; %s | %s", name, v1, errTextW3(err1), other, v2, errTextW3(err2), w.state(name), w.state(other))
				e1, e2 := v1, v2
				if err1 != nil {
					e1 = p1
				}
				if err2 != nil {
					e2 = p2
				}
				if !check("concurrent change", name, e1, err1, false, true) || !check("concurrent change", other, e2, err2, false, true) {
					return
				}
				committed[name], committed[other] = e1, e2
				applied++
				continue
			}
			v := nextVersion
			nextVersion++
			prev := committed[name]
			err := service.ModifyNamespace(nsConfig(name, v), w.cfg, cluster)
			r.Sched("op", fmt.Sprintf("modify/%s/%v", name, err == nil))
			r.Logf("ModifyNamespace(%s v%d) -> %s; %s", name, v, errTextW3(err), w.state(name))
			expect := v
			if err != nil {
				expect = prev
				aborted++
			} else {
				applied++
			}
			if commitFault {
				r.Probe("fault-in-commit-phase")
			}
			if !check("change", name, expect, err, commitFault, false) {
				return
			}
			committed[name] = expect
		}
		if r.Failed() {
			return
		}
		// liveness: faults stop, crashed proxies come back, the next change goes through everywhere
		w.fault = nil
		for _, p := range w.proxies {
			if !p.up {
				if err := w.start(p); err != nil {
					r.Failf("harness", "restart proxy%d: %v", p.idx, err)
					return
				}
			}
		}
		w.log = nil
		v := nextVersion
		err := service.ModifyNamespace(nsConfig("nsa", v), w.cfg, cluster)
		r.Logf("final fault-free ModifyNamespace(nsa v%d) -> %s; %s", v, errTextW3(err), w.state("nsa"))
		if err != nil {
			r.Failf("C32-fault-free-change-failed", "after the faults stopped and every proxy was back, ModifyNamespace(nsa v%d) failed: %v; exchanges %v", v, err, w.log)
			return
		}
		check("final change", "nsa", v, nil, false, false)
	})
	driveBusyW3(r, tp, 4000, func() bool { return !finished })
	r.Nontrivial = applied > 0 && aborted > 0
	if applied > 0 {
		r.Probe("change-applied")
	}
	if aborted > 0 {
		r.Probe("change-aborted")
	}
	r.State(simkit.Hash(cfgText + fmt.Sprint(applied, aborted)))
	r.Sample = map[string]interface{}{"config": cfgText, "applied": applied, "aborted": aborted, "trace_head": headW3(r.Trace(), 40)}
}

func errTextW3(err error) string {
	if err == nil {
		return "ok"
	}
	s := err.Error()
	if len(s) > 160 {
		s = s[:160]
	}
	return s
}

func headW3(s []string, n int) []string {
	if len(s) > n {
		return s[:n]
	}
	return s
}
