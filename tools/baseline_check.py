#!/usr/bin/env python3
"""Runs the pinned suite on /repo (guard off) and compares with BASELINE.json stable_pass."""
import json, subprocess, sys, os
env = dict(os.environ, TZ="Asia/Shanghai", GOFLAGS="-mod=mod", GOPROXY="off", GOSUMDB="off", GOTOOLCHAIN="local")
repo = sys.argv[1] if len(sys.argv) > 1 else "/repo"
p = subprocess.run(["go", "test", "-mod=mod", "-json", "-vet=off", "-count=1", "-timeout", "25m", "./..."], cwd=repo, env=env, capture_output=True, text=True)
passed = set()
failed = set()
for line in p.stdout.splitlines():
    try:
        e = json.loads(line)
    except Exception:
        continue
    if e.get("Test") and e.get("Action") in ("pass", "fail"):
        k = "%s::%s" % (e["Package"], e["Test"])
        (passed if e["Action"] == "pass" else failed).add(k)
base = set(json.load(open("/root/.vp/BASELINE.json"))["stable_pass"])
missing = sorted(base - passed)
print("passed %d, failed %d, baseline %d, baseline tests not passing now: %d" % (len(passed), len(failed), len(base), len(missing)))
for m in missing[:40]:
    print("  MISSING", m)
sys.exit(1 if missing else 0)
