#!/usr/bin/env python3
"""keep_seed.py <src_dir> <name> <property> <caught:yes|no> <needs...>  -> /verif/seeded/<name>/"""
import sys, os, shutil, json
src, name, prop, caught = sys.argv[1:5]
needs = " ".join(sys.argv[5:])
dst = os.path.join("/verif/seeded", name)
os.makedirs(dst, exist_ok=True)
for f in os.listdir(src):
    if os.path.isfile(os.path.join(src, f)):
        shutil.copy(os.path.join(src, f), dst)
meta = {"property": prop, "breaks": prop, "needs_to_manifest": needs,
        "confirmed": "tools/confirm_seed.sh in a scratch worktree of /repo HEAD: patch applies, go build ok, existing tests of the touched packages pass, demo fails with the patch (agent verified it passes without)",
        "check_run": "tools/try_seed.sh %s seeded/%s/patch.diff (git apply to /repo, ./bin/vcheck %s quick, git checkout)" % (prop, name, prop),
        "caught_by_quick_check": caught == "yes"}
json.dump(meta, open(os.path.join(dst, "meta.json"), "w"), indent=1)
print("kept", dst)
