#!/bin/bash
# run_all.sh [tier]: runs every registered check on the current /repo tree, one after the other; summary in /tmp/run_all.log
TIER=${1:-quick}
cd /verif
: > /tmp/run_all.log
for P in $(python3 -c "import json;print(' '.join(c['property_id'] for c in json.load(open('MANIFEST.json'))['checks']))"); do
  S=$(date +%s)
  OUT=$(./bin/vcheck $P $TIER 2>&1 | tail -3)
  RC=$?
  echo "== $P rc=${PIPESTATUS[0]} $(( $(date +%s) - S ))s :: $(echo "$OUT" | tail -1)" >> /tmp/run_all.log
done
echo DONE >> /tmp/run_all.log
