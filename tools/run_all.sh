#!/bin/bash
# run_all.sh [tier]: runs every registered check on the current /repo tree, one after the other; summary in /tmp/run_all.log
TIER=${1:-quick}
cd /verif
: > /tmp/run_all.log
for P in $(python3 -c "import json;print(' '.join(c['property_id'] for c in json.load(open('MANIFEST.json'))['checks']))"); do
  S=$(date +%s)
  ./bin/vcheck $P $TIER > /tmp/run_all.$P.out 2>&1
  RC=$?
  echo "== $P rc=$RC $(( $(date +%s) - S ))s :: $(grep -c '^VIOLATION' /tmp/run_all.$P.out) violations :: $(tail -1 /tmp/run_all.$P.out | cut -c1-200)" >> /tmp/run_all.log
  [ $RC = 0 ] && rm -f /tmp/run_all.$P.out
done
echo DONE >> /tmp/run_all.log
