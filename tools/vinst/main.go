// vinst instruments a scratch copy of selected /repo source files for the
// /verif simulation harness and writes a go build overlay. It never writes
// into the repository. Any anchor it cannot find is a hard error (exit 2).
package main

import (
	"bytes"
	"encoding/json"
	"flag"
	"fmt"
	"go/ast"
	"go/format"
	"go/token"
	"go/types"
	"os"
	"path/filepath"
	"reflect"
	"sort"
	"strings"

	"golang.org/x/tools/go/ast/astutil"
	"golang.org/x/tools/go/packages"
)

type YieldSpec struct {
	File   string   `json:"file"`
	Funcs  []string `json:"funcs"`  // "*" or names ("Recv.Method" or "Func")
	Except []string `json:"except"` // names to skip
}

type ExprSpec struct {
	Kind string `json:"kind"` // tcpassert | dial | intn | prologue | result
	File string `json:"file"`
	Func string `json:"func"`
	Arg  string `json:"arg"`
}

type World struct {
	Load     []string          `json:"load"`
	MapRange []string          `json:"maprange"`
	Yield    []YieldSpec       `json:"yield"`
	Mutex    []string          `json:"mutex"`
	Selects  []string          `json:"selects"`
	Time     []string          `json:"time"`
	Exprs    []ExprSpec        `json:"exprs"`
	Add      map[string]string `json:"add"` // repo-relative dest -> verif-relative source
}

const hookPath = "github.com/XiaoMi/Gaea/util/verifhook"

func die(format string, a ...interface{}) {
	fmt.Fprintf(os.Stderr, "vinst: "+format+"\n", a...)
	os.Exit(2)
}

type fileCtx struct {
	pkg      *packages.Package
	file     *ast.File
	path     string // absolute
	rel      string // repo relative
	modified bool
	n        int
}

func main() {
	repo := flag.String("repo", "/repo", "repository root")
	verif := flag.String("verif", "/verif", "verif root")
	worldFile := flag.String("world", "", "world json")
	out := flag.String("out", "", "output directory")
	flag.Parse()
	if *worldFile == "" || *out == "" {
		die("usage: vinst -world w.json -out dir")
	}
	var w World
	b, err := os.ReadFile(*worldFile)
	if err != nil {
		die("%v", err)
	}
	if err := json.Unmarshal(b, &w); err != nil {
		die("world: %v", err)
	}
	if err := os.MkdirAll(*out, 0o755); err != nil {
		die("%v", err)
	}
	overlay := map[string]string{}

	if len(w.Load) > 0 {
		cfg := &packages.Config{
			Mode: packages.NeedName | packages.NeedFiles | packages.NeedCompiledGoFiles | packages.NeedSyntax |
				packages.NeedTypes | packages.NeedTypesInfo | packages.NeedImports,
			Dir:   *repo,
			Tests: false,
			Env:   append(os.Environ(), "GOFLAGS=-mod=mod", "GOPROXY=off", "GOSUMDB=off", "GOTOOLCHAIN=local"),
		}
		pkgs, err := packages.Load(cfg, w.Load...)
		if err != nil {
			die("load: %v", err)
		}
		files := map[string]*fileCtx{}
		for _, p := range pkgs {
			if len(p.Errors) > 0 {
				for _, e := range p.Errors {
					fmt.Fprintf(os.Stderr, "vinst: %s: %v\n", p.PkgPath, e)
				}
				die("package %s does not type-check", p.PkgPath)
			}
			for i, f := range p.Syntax {
				abs := p.CompiledGoFiles[i]
				rel, _ := filepath.Rel(*repo, abs)
				files[rel] = &fileCtx{pkg: p, file: f, path: abs, rel: rel}
			}
		}
		match := func(globs []string) []*fileCtx {
			var res []*fileCtx
			for _, g := range globs {
				found := false
				var rels []string
				for rel := range files {
					rels = append(rels, rel)
				}
				sort.Strings(rels)
				for _, rel := range rels {
					if ok, _ := filepath.Match(g, rel); ok && !strings.HasSuffix(rel, "_test.go") {
						res = append(res, files[rel])
						found = true
					}
				}
				if !found {
					die("no loaded file matches %q", g)
				}
			}
			return res
		}
		// order matters: expression rewrites and mutex first (they keep
		// statement structure), then map ranges, then yields (yields are
		// inserted into the bodies produced by the map-range rewrite too).
		for _, e := range w.Exprs {
			fc, ok := files[e.File]
			if !ok {
				die("expr %s: file %s not loaded", e.Kind, e.File)
			}
			rewriteExpr(fc, e)
		}
		for _, fc := range match(w.Mutex) {
			rewriteMutex(fc)
		}
		for _, fc := range match(w.MapRange) {
			rewriteMapRange(fc)
		}
		for _, y := range w.Yield {
			fc, ok := files[y.File]
			if !ok {
				die("yield: file %s not loaded", y.File)
			}
			insertYields(fc, y)
		}
		if len(w.Time) > 0 {
			for _, fc := range match(w.Time) {
				rewriteTime(fc)
			}
		}
		if len(w.Selects) > 0 {
			for _, fc := range match(w.Selects) {
				rewriteSelects(fc)
			}
		}
		var rels []string
		for rel := range files {
			rels = append(rels, rel)
		}
		sort.Strings(rels)
		for _, rel := range rels {
			fc := files[rel]
			if !fc.modified {
				continue
			}
			astutil.AddImport(fc.pkg.Fset, fc.file, hookPath)
			// drop comments after the package clause: a modified AST would
			// print them at arbitrary places. Compiler directives must not be lost.
			var keep []*ast.CommentGroup
			for _, cg := range fc.file.Comments {
				if cg.Pos() < fc.file.Package {
					keep = append(keep, cg)
					continue
				}
				for _, cm := range cg.List {
					if strings.HasPrefix(cm.Text, "//go:") || strings.HasPrefix(cm.Text, "// +build") || strings.HasPrefix(cm.Text, "//line") {
						die("%s: compiler directive %q after the package clause is not supported", rel, cm.Text)
					}
				}
			}
			fc.file.Comments = keep
			var buf bytes.Buffer
			if err := format.Node(&buf, fc.pkg.Fset, fc.file); err != nil {
				die("print %s: %v", rel, err)
			}
			dst := filepath.Join(*out, strings.ReplaceAll(rel, "/", "__"))
			if err := os.WriteFile(dst, buf.Bytes(), 0o644); err != nil {
				die("%v", err)
			}
			overlay[fc.path] = dst
		}
	}
	for dst, src := range w.Add {
		s := filepath.Join(*verif, src)
		if _, err := os.Stat(s); err != nil {
			die("add: %v", err)
		}
		overlay[filepath.Join(*repo, dst)] = s
	}
	ob, _ := json.MarshalIndent(map[string]interface{}{"Replace": overlay}, "", " ")
	if err := os.WriteFile(filepath.Join(*out, "overlay.json"), ob, 0o644); err != nil {
		die("%v", err)
	}
}

func (fc *fileCtx) site(pos token.Pos) string {
	p := fc.pkg.Fset.Position(pos)
	return fmt.Sprintf("%s:%d", fc.rel, p.Line)
}

func hookCall(name string, args ...ast.Expr) *ast.CallExpr {
	return &ast.CallExpr{Fun: &ast.SelectorExpr{X: ast.NewIdent("verifhook"), Sel: ast.NewIdent(name)}, Args: args}
}

func strLit(s string) ast.Expr {
	return &ast.BasicLit{Kind: token.STRING, Value: fmt.Sprintf("%q", s)}
}

// ---------------------------------------------------------------- funcs ---

func funcName(fd *ast.FuncDecl) string {
	if fd.Recv != nil && len(fd.Recv.List) == 1 {
		t := fd.Recv.List[0].Type
		if s, ok := t.(*ast.StarExpr); ok {
			t = s.X
		}
		if id, ok := t.(*ast.Ident); ok {
			return id.Name + "." + fd.Name.Name
		}
	}
	return fd.Name.Name
}

func selected(name string, y YieldSpec) bool {
	short := name
	if i := strings.Index(name, "."); i >= 0 {
		short = name[i+1:]
	}
	for _, e := range y.Except {
		if e == name || e == short {
			return false
		}
	}
	for _, f := range y.Funcs {
		if f == "*" || f == name || f == short {
			return true
		}
	}
	return false
}

// ---------------------------------------------------------------- yields --

func isTerminating(s ast.Stmt) bool {
	switch t := s.(type) {
	case *ast.ReturnStmt, *ast.BranchStmt:
		return true
	case *ast.ExprStmt:
		if c, ok := t.X.(*ast.CallExpr); ok {
			if id, ok := c.Fun.(*ast.Ident); ok && id.Name == "panic" {
				return true
			}
		}
	}
	return false
}

func insertYields(fc *fileCtx, y YieldSpec) {
	found := map[string]bool{}
	for _, d := range fc.file.Decls {
		fd, ok := d.(*ast.FuncDecl)
		if !ok || fd.Body == nil {
			continue
		}
		name := funcName(fd)
		if !selected(name, y) {
			continue
		}
		found[name] = true
		short := name
		if i := strings.Index(name, "."); i >= 0 {
			short = name[i+1:]
		}
		found[short] = true
		yieldFuncBody(fc, fd.Body)
		fc.modified = true
	}
	for _, f := range y.Funcs {
		if f != "*" && !found[f] {
			die("yield: function %s not found in %s", f, y.File)
		}
	}
}

func yieldStmt(fc *fileCtx, pos token.Pos) ast.Stmt {
	return &ast.ExprStmt{X: hookCall("Yield", strLit(fc.site(pos)))}
}

func yieldList(fc *fileCtx, list []ast.Stmt, end token.Pos) []ast.Stmt {
	var out []ast.Stmt
	for _, s := range list {
		yieldInside(fc, s)
		if _, isDecl := s.(*ast.DeclStmt); !isDecl {
			out = append(out, yieldStmt(fc, s.Pos()))
		}
		out = append(out, s)
	}
	if len(list) > 0 && !isTerminating(list[len(list)-1]) {
		out = append(out, yieldStmt(fc, end))
	}
	return out
}

// yieldFuncBody is yieldBlock without the trailing yield: a function body that
// ends in a terminating statement must keep ending in it.
func yieldFuncBody(fc *fileCtx, b *ast.BlockStmt) {
	if b == nil {
		return
	}
	n := len(b.List)
	b.List = yieldList(fc, b.List, b.Rbrace)
	if n > 0 && len(b.List) > 0 {
		if es, ok := b.List[len(b.List)-1].(*ast.ExprStmt); ok {
			if c, ok := es.X.(*ast.CallExpr); ok {
				if se, ok := c.Fun.(*ast.SelectorExpr); ok && se.Sel.Name == "Yield" {
					b.List = b.List[:len(b.List)-1]
				}
			}
		}
	}
}

func yieldBlock(fc *fileCtx, b *ast.BlockStmt) {
	if b == nil {
		return
	}
	b.List = yieldList(fc, b.List, b.Rbrace)
}

func yieldInside(fc *fileCtx, s ast.Stmt) {
	switch t := s.(type) {
	case *ast.BlockStmt:
		yieldBlock(fc, t)
	case *ast.IfStmt:
		yieldBlock(fc, t.Body)
		if t.Else != nil {
			yieldInside(fc, t.Else)
		}
	case *ast.ForStmt:
		yieldBlock(fc, t.Body)
	case *ast.RangeStmt:
		yieldBlock(fc, t.Body)
	case *ast.SwitchStmt:
		for _, c := range t.Body.List {
			cc := c.(*ast.CaseClause)
			cc.Body = yieldList(fc, cc.Body, cc.End())
		}
	case *ast.TypeSwitchStmt:
		for _, c := range t.Body.List {
			cc := c.(*ast.CaseClause)
			cc.Body = yieldList(fc, cc.Body, cc.End())
		}
	case *ast.SelectStmt:
		for _, c := range t.Body.List {
			cc := c.(*ast.CommClause)
			if len(cc.Body) == 0 {
				cc.Body = []ast.Stmt{yieldStmt(fc, cc.Pos())}
			} else {
				cc.Body = yieldList(fc, cc.Body, cc.End())
			}
		}
	case *ast.LabeledStmt:
		yieldInside(fc, t.Stmt)
	case *ast.GoStmt:
		yieldFuncLits(fc, t.Call)
	case *ast.DeferStmt:
		yieldFuncLits(fc, t.Call)
	case *ast.ExprStmt:
		yieldFuncLits(fc, t.X)
	case *ast.AssignStmt:
		for _, r := range t.Rhs {
			yieldFuncLits(fc, r)
		}
	}
}

func yieldFuncLits(fc *fileCtx, n ast.Node) {
	ast.Inspect(n, func(x ast.Node) bool {
		if fl, ok := x.(*ast.FuncLit); ok {
			yieldFuncBody(fc, fl.Body)
			return false
		}
		return true
	})
}

// ---------------------------------------------------------------- mutex ---

func rewriteMutex(fc *fileCtx) {
	info := fc.pkg.TypesInfo
	ast.Inspect(fc.file, func(n ast.Node) bool {
		call, ok := n.(*ast.CallExpr)
		if !ok || len(call.Args) != 0 {
			return true
		}
		sel, ok := call.Fun.(*ast.SelectorExpr)
		if !ok {
			return true
		}
		var hook string
		switch sel.Sel.Name {
		case "Lock", "Unlock", "RLock", "RUnlock":
		default:
			return true
		}
		s, ok := info.Selections[sel]
		if !ok {
			return true
		}
		fn, ok := s.Obj().(*types.Func)
		if !ok || fn.Pkg() == nil || fn.Pkg().Path() != "sync" {
			return true
		}
		recv := fn.Type().(*types.Signature).Recv().Type()
		rname := types.TypeString(recv, func(p *types.Package) string { return p.Name() })
		isRW := strings.Contains(rname, "RWMutex")
		if !isRW && !strings.Contains(rname, "Mutex") {
			return true
		}
		var recvExpr ast.Expr = sel.X
		if len(s.Index()) != 1 {
			// method promoted through embedded fields: spell the field path out
			t := info.TypeOf(sel.X)
			for _, fi := range s.Index()[:len(s.Index())-1] {
				if p, ok := t.Underlying().(*types.Pointer); ok {
					t = p.Elem()
				}
				st, ok := t.Underlying().(*types.Struct)
				if !ok {
					die("%s: cannot resolve embedded mutex", fc.site(call.Pos()))
				}
				f := st.Field(fi)
				recvExpr = &ast.SelectorExpr{X: recvExpr, Sel: ast.NewIdent(f.Name())}
				t = f.Type()
			}
		}
		switch {
		case !isRW && sel.Sel.Name == "Lock":
			hook = "Lock"
		case !isRW && sel.Sel.Name == "Unlock":
			hook = "Unlock"
		case isRW && sel.Sel.Name == "Lock":
			hook = "RWLock"
		case isRW && sel.Sel.Name == "Unlock":
			hook = "RWUnlock"
		case isRW && sel.Sel.Name == "RLock":
			hook = "RLock"
		case isRW && sel.Sel.Name == "RUnlock":
			hook = "RUnlock"
		default:
			return true
		}
		var arg ast.Expr = recvExpr
		isPtr := false
		if recvExpr == sel.X {
			_, isPtr = info.TypeOf(sel.X).Underlying().(*types.Pointer)
		} else {
			// the last embedded field: pointer iff the method's receiver field is a pointer type
			t := info.TypeOf(sel.X)
			for _, fi := range s.Index()[:len(s.Index())-1] {
				if p, ok := t.Underlying().(*types.Pointer); ok {
					t = p.Elem()
				}
				t = t.Underlying().(*types.Struct).Field(fi).Type()
			}
			_, isPtr = t.Underlying().(*types.Pointer)
		}
		if !isPtr {
			arg = &ast.UnaryExpr{Op: token.AND, X: recvExpr}
		}
		site := fc.site(call.Pos())
		call.Fun = &ast.SelectorExpr{X: ast.NewIdent("verifhook"), Sel: ast.NewIdent(hook)}
		call.Args = []ast.Expr{arg, strLit(site)}
		fc.modified = true
		return true
	})
}

// ---------------------------------------------------------------- ranges --

func pure(e ast.Expr) bool {
	switch t := e.(type) {
	case *ast.Ident:
		return true
	case *ast.SelectorExpr:
		return pure(t.X)
	case *ast.ParenExpr:
		return pure(t.X)
	case *ast.StarExpr:
		return pure(t.X)
	case *ast.IndexExpr:
		return pure(t.X) && pure(t.Index)
	case *ast.BasicLit:
		return true
	}
	return false
}

func usesInFuncLit(body *ast.BlockStmt, names ...string) bool {
	used := false
	ast.Inspect(body, func(n ast.Node) bool {
		if fl, ok := n.(*ast.FuncLit); ok {
			ast.Inspect(fl, func(m ast.Node) bool {
				if id, ok := m.(*ast.Ident); ok {
					for _, nm := range names {
						if nm != "" && nm != "_" && id.Name == nm {
							used = true
						}
					}
				}
				return true
			})
			return false
		}
		return true
	})
	return used
}

func (fc *fileCtx) typeExpr(t types.Type, pos token.Pos) string {
	imports := map[string]string{}
	for _, im := range fc.file.Imports {
		p := strings.Trim(im.Path.Value, `"`)
		name := ""
		if im.Name != nil {
			name = im.Name.Name
		}
		imports[p] = name
	}
	bad := ""
	s := types.TypeString(t, func(p *types.Package) string {
		if p == fc.pkg.Types {
			return ""
		}
		if n, ok := imports[p.Path()]; ok {
			if n != "" {
				return n
			}
			return p.Name()
		}
		bad = p.Path()
		return p.Name()
	})
	if bad != "" {
		die("%s: type %s needs import %s which the file does not have", fc.site(pos), s, bad)
	}
	return s
}

func rewriteMapRange(fc *fileCtx) {
	info := fc.pkg.TypesInfo
	astutil.Apply(fc.file, nil, func(c *astutil.Cursor) bool {
		rs, ok := c.Node().(*ast.RangeStmt)
		if !ok {
			return true
		}
		tv := info.TypeOf(rs.X)
		if tv == nil {
			return true
		}
		mt, ok := tv.Underlying().(*types.Map)
		if !ok {
			return true
		}
		if rs.Key == nil && rs.Value == nil {
			return true
		}
		site := fc.site(rs.Pos())
		if rs.Tok != token.DEFINE {
			die("%s: range over map with '=' is not supported", site)
		}
		fc.n++
		n := fc.n
		keyName, valName := "_", "_"
		if id, ok := rs.Key.(*ast.Ident); ok {
			keyName = id.Name
		} else if rs.Key != nil {
			die("%s: unsupported range key", site)
		}
		if rs.Value != nil {
			if id, ok := rs.Value.(*ast.Ident); ok {
				valName = id.Name
			} else {
				die("%s: unsupported range value", site)
			}
		}
		_, labeled := c.Parent().(*ast.LabeledStmt)
		var pre []ast.Stmt
		var mexpr ast.Expr = rs.X
		if !pure(rs.X) {
			if labeled {
				die("%s: labeled range over impure map expression is not supported", site)
			}
			mv := fmt.Sprintf("verifM%d", n)
			pre = append(pre, &ast.AssignStmt{Lhs: []ast.Expr{ast.NewIdent(mv)}, Tok: token.DEFINE, Rhs: []ast.Expr{rs.X}})
			mexpr = ast.NewIdent(mv)
		}
		// key helper
		kt := mt.Key()
		var helper string
		var conv func(e ast.Expr) ast.Expr
		kts := fc.typeExpr(kt, rs.Pos())
		switch b := kt.Underlying().(type) {
		case *types.Basic:
			switch {
			case b.Kind() == types.String:
				helper = "KeysString"
			case b.Info()&types.IsInteger != 0:
				helper = "KeysInt"
			default:
				helper = "KeysAny"
			}
		default:
			helper = "KeysAny"
		}
		switch helper {
		case "KeysString":
			if kts == "string" {
				conv = func(e ast.Expr) ast.Expr { return e }
			} else {
				conv = func(e ast.Expr) ast.Expr {
					return &ast.CallExpr{Fun: ast.NewIdent(kts), Args: []ast.Expr{e}}
				}
			}
		case "KeysInt":
			conv = func(e ast.Expr) ast.Expr {
				return &ast.CallExpr{Fun: &ast.ParenExpr{X: ast.NewIdent(kts)}, Args: []ast.Expr{e}}
			}
		default:
			if _, isIface := kt.Underlying().(*types.Interface); isIface && kts == "interface{}" {
				conv = func(e ast.Expr) ast.Expr { return e }
			} else {
				conv = func(e ast.Expr) ast.Expr {
					return &ast.TypeAssertExpr{X: e, Type: ast.NewIdent(kts)}
				}
			}
		}
		hoist := usesInFuncLit(rs.Body, keyName, valName)
		rawKey := fmt.Sprintf("verifK%d", n)
		okName := fmt.Sprintf("verifOK%d", n)
		kIdent := keyName
		if kIdent == "_" {
			kIdent = fmt.Sprintf("verifKK%d", n)
		}
		var body []ast.Stmt
		tok := token.DEFINE
		if hoist {
			tok = token.ASSIGN
			if keyName != "_" {
				pre = append(pre, &ast.DeclStmt{Decl: &ast.GenDecl{Tok: token.VAR, Specs: []ast.Spec{
					&ast.ValueSpec{Names: []*ast.Ident{ast.NewIdent(keyName)}, Type: ast.NewIdent(kts)}}}})
				pre = append(pre, &ast.AssignStmt{Lhs: []ast.Expr{ast.NewIdent("_")}, Tok: token.ASSIGN, Rhs: []ast.Expr{ast.NewIdent(keyName)}})
			}
			if valName != "_" {
				vts := fc.typeExpr(mt.Elem(), rs.Pos())
				pre = append(pre, &ast.DeclStmt{Decl: &ast.GenDecl{Tok: token.VAR, Specs: []ast.Spec{
					&ast.ValueSpec{Names: []*ast.Ident{ast.NewIdent(valName)}, Type: ast.NewIdent(vts)}}}})
				pre = append(pre, &ast.AssignStmt{Lhs: []ast.Expr{ast.NewIdent("_")}, Tok: token.ASSIGN, Rhs: []ast.Expr{ast.NewIdent(valName)}})
			}
			if labeled {
				die("%s: labeled map range capturing loop variables is not supported", site)
			}
		}
		if keyName != "_" {
			body = append(body, &ast.AssignStmt{Lhs: []ast.Expr{ast.NewIdent(keyName)}, Tok: tok, Rhs: []ast.Expr{conv(ast.NewIdent(rawKey))}})
		} else {
			body = append(body, &ast.AssignStmt{Lhs: []ast.Expr{ast.NewIdent(kIdent)}, Tok: token.DEFINE, Rhs: []ast.Expr{conv(ast.NewIdent(rawKey))}})
		}
		vIdent := valName
		if hoist && valName != "_" {
			// v, ok = m[k] needs ok declared
			body = append(body, &ast.DeclStmt{Decl: &ast.GenDecl{Tok: token.VAR, Specs: []ast.Spec{
				&ast.ValueSpec{Names: []*ast.Ident{ast.NewIdent(okName)}, Type: ast.NewIdent("bool")}}}})
			body = append(body, &ast.AssignStmt{Lhs: []ast.Expr{ast.NewIdent(vIdent), ast.NewIdent(okName)}, Tok: token.ASSIGN,
				Rhs: []ast.Expr{&ast.IndexExpr{X: mexpr, Index: ast.NewIdent(kIdent)}}})
		} else {
			body = append(body, &ast.AssignStmt{Lhs: []ast.Expr{ast.NewIdent(vIdent), ast.NewIdent(okName)}, Tok: token.DEFINE,
				Rhs: []ast.Expr{&ast.IndexExpr{X: mexpr, Index: ast.NewIdent(kIdent)}}})
		}
		body = append(body, &ast.IfStmt{Cond: &ast.UnaryExpr{Op: token.NOT, X: ast.NewIdent(okName)},
			Body: &ast.BlockStmt{List: []ast.Stmt{&ast.BranchStmt{Tok: token.CONTINUE}}}})
		body = append(body, rs.Body.List...)
		loop := &ast.RangeStmt{
			Key: ast.NewIdent("_"), Value: ast.NewIdent(rawKey), Tok: token.DEFINE,
			X:    hookCall(helper, mexpr, strLit(site)),
			Body: &ast.BlockStmt{List: body, Lbrace: rs.Body.Lbrace, Rbrace: rs.Body.Rbrace},
		}
		fc.modified = true
		if len(pre) == 0 {
			c.Replace(loop)
		} else {
			c.Replace(&ast.BlockStmt{List: append(pre, loop)})
		}
		return true
	})
}

// ---------------------------------------------------------------- exprs ---

func findFunc(fc *fileCtx, name string) *ast.FuncDecl {
	for _, d := range fc.file.Decls {
		if fd, ok := d.(*ast.FuncDecl); ok && fd.Body != nil {
			n := funcName(fd)
			if n == name || (strings.Contains(n, ".") && n[strings.Index(n, ".")+1:] == name) {
				return fd
			}
		}
	}
	die("%s: function %s not found", fc.rel, name)
	return nil
}

func rewriteExpr(fc *fileCtx, e ExprSpec) {
	fd := findFunc(fc, e.Func)
	count := 0
	switch e.Kind {
	case "tcpassert":
		astutil.Apply(fd.Body, nil, func(c *astutil.Cursor) bool {
			ta, ok := c.Node().(*ast.TypeAssertExpr)
			if !ok || ta.Type == nil {
				return true
			}
			var buf bytes.Buffer
			format.Node(&buf, fc.pkg.Fset, ta.Type)
			if buf.String() != "*net.TCPConn" {
				return true
			}
			c.Replace(hookCall("AsTCP", ta.X))
			count++
			return true
		})
	case "dial":
		astutil.Apply(fd.Body, nil, func(c *astutil.Cursor) bool {
			call, ok := c.Node().(*ast.CallExpr)
			if !ok {
				return true
			}
			sel, ok := call.Fun.(*ast.SelectorExpr)
			if !ok || sel.Sel.Name != "DialContext" || len(call.Args) != 3 {
				return true
			}
			var recv ast.Expr = sel.X
			if _, isPtr := fc.pkg.TypesInfo.TypeOf(sel.X).Underlying().(*types.Pointer); !isPtr {
				recv = &ast.UnaryExpr{Op: token.AND, X: sel.X}
			}
			c.Replace(hookCall("Dial", append([]ast.Expr{recv}, call.Args...)...))
			count++
			return true
		})
	case "intn":
		astutil.Apply(fd.Body, nil, func(c *astutil.Cursor) bool {
			call, ok := c.Node().(*ast.CallExpr)
			if !ok || len(call.Args) != 1 {
				return true
			}
			sel, ok := call.Fun.(*ast.SelectorExpr)
			if !ok || sel.Sel.Name != "Intn" {
				return true
			}
			if id, ok := sel.X.(*ast.Ident); !ok || id.Name != "rand" {
				return true
			}
			c.Replace(hookCall("Intn", call.Args[0], strLit(fc.site(call.Pos())), call.Fun))
			count++
			return true
		})
	case "prologue":
		// if h, ok := verifhook.Hooks["<arg>"]; ok { return h.(func(<params>) <results>)(<params>) }
		ft := fd.Type
		var args []ast.Expr
		for _, f := range ft.Params.List {
			for _, n := range f.Names {
				args = append(args, ast.NewIdent(n.Name))
			}
		}
		ftCopy := &ast.FuncType{Params: ft.Params, Results: ft.Results}
		callH := &ast.CallExpr{Fun: &ast.TypeAssertExpr{X: ast.NewIdent("verifH"), Type: ftCopy}, Args: args}
		var ret ast.Stmt
		if ft.Results != nil && len(ft.Results.List) > 0 {
			ret = &ast.ReturnStmt{Results: []ast.Expr{callH}}
		} else {
			ret = &ast.BlockStmt{List: []ast.Stmt{&ast.ExprStmt{X: callH}, &ast.ReturnStmt{}}}
		}
		ifs := &ast.IfStmt{
			Init: &ast.AssignStmt{Lhs: []ast.Expr{ast.NewIdent("verifH"), ast.NewIdent("verifHok")}, Tok: token.DEFINE,
				Rhs: []ast.Expr{&ast.IndexExpr{X: &ast.SelectorExpr{X: ast.NewIdent("verifhook"), Sel: ast.NewIdent("Hooks")}, Index: strLit(e.Arg)}}},
			Cond: ast.NewIdent("verifHok"),
			Body: &ast.BlockStmt{List: []ast.Stmt{ret}},
		}
		fd.Body.List = append([]ast.Stmt{ifs}, fd.Body.List...)
		count++
	case "result":
		// the first result of the function is shown to a hook when the function returns:
		//   defer func() { if h, ok := verifhook.Hooks["<arg>"]; ok { h.(func(interface{}))(verifR0) } }()
		ft := fd.Type
		if ft.Results == nil || len(ft.Results.List) == 0 {
			die("%s: %s has no results", fc.rel, e.Func)
		}
		first := ""
		k := 0
		for _, f := range ft.Results.List {
			if len(f.Names) == 0 {
				f.Names = []*ast.Ident{ast.NewIdent(fmt.Sprintf("verifR%d", k))}
			}
			if first == "" {
				first = f.Names[0].Name
			}
			k += len(f.Names)
		}
		callH := &ast.CallExpr{Fun: &ast.TypeAssertExpr{X: ast.NewIdent("verifH"), Type: &ast.FuncType{Params: &ast.FieldList{List: []*ast.Field{{Type: &ast.InterfaceType{Methods: &ast.FieldList{}}}}}}}, Args: []ast.Expr{ast.NewIdent(first)}}
		ifs := &ast.IfStmt{
			Init: &ast.AssignStmt{Lhs: []ast.Expr{ast.NewIdent("verifH"), ast.NewIdent("verifHok")}, Tok: token.DEFINE,
				Rhs: []ast.Expr{&ast.IndexExpr{X: &ast.SelectorExpr{X: ast.NewIdent("verifhook"), Sel: ast.NewIdent("Hooks")}, Index: strLit(e.Arg)}}},
			Cond: ast.NewIdent("verifHok"),
			Body: &ast.BlockStmt{List: []ast.Stmt{&ast.ExprStmt{X: callH}}},
		}
		def := &ast.DeferStmt{Call: &ast.CallExpr{Fun: &ast.FuncLit{Type: &ast.FuncType{Params: &ast.FieldList{}}, Body: &ast.BlockStmt{List: []ast.Stmt{ifs}}}}}
		fd.Body.List = append([]ast.Stmt{def}, fd.Body.List...)
		count++
	default:
		die("unknown expr kind %s", e.Kind)
	}
	if count == 0 {
		die("%s: anchor for %s not found in %s", fc.rel, e.Kind, e.Func)
	}
	fc.modified = true
}

// ---------------------------------------------------------------- select --

// rewriteSelects makes the choice among several ready cases of a select a
// simulator decision: the cases are polled one at a time in an order from the
// tape (all other channels masked with nil) before the original select runs.
func rewriteSelects(fc *fileCtx) {
	astutil.Apply(fc.file, nil, func(c *astutil.Cursor) bool {
		sel, ok := c.Node().(*ast.SelectStmt)
		if !ok {
			return true
		}
		var comms []*ast.CommClause
		for _, cl := range sel.Body.List {
			cc := cl.(*ast.CommClause)
			if cc.Comm != nil {
				comms = append(comms, cc)
			}
		}
		if len(comms) < 2 {
			return true
		}
		if _, labeled := c.Parent().(*ast.LabeledStmt); labeled {
			die("%s: labeled select is not supported", fc.site(sel.Pos()))
		}
		hasLabel := false
		ast.Inspect(sel, func(n ast.Node) bool {
			if _, ok := n.(*ast.LabeledStmt); ok {
				hasLabel = true
			}
			return true
		})
		if hasLabel {
			die("%s: label inside select body is not supported", fc.site(sel.Pos()))
		}
		fc.n++
		id := fc.n
		site := fc.site(sel.Pos())
		n := len(comms)
		var pre []ast.Stmt
		chName := func(i int) string { return fmt.Sprintf("verifC%d_%d", id, i) }
		chanExpr := func(cc *ast.CommClause) *ast.Expr {
			switch t := cc.Comm.(type) {
			case *ast.SendStmt:
				return &t.Chan
			case *ast.ExprStmt:
				if u, ok := t.X.(*ast.UnaryExpr); ok && u.Op == token.ARROW {
					return &u.X
				}
			case *ast.AssignStmt:
				if len(t.Rhs) == 1 {
					if u, ok := t.Rhs[0].(*ast.UnaryExpr); ok && u.Op == token.ARROW {
						return &u.X
					}
				}
			}
			die("%s: unsupported select communication", site)
			return nil
		}
		// evaluate every channel operand once, in source order
		for i, cc := range comms {
			pe := chanExpr(cc)
			pre = append(pre, &ast.AssignStmt{Lhs: []ast.Expr{ast.NewIdent(chName(i))}, Tok: token.DEFINE, Rhs: []ast.Expr{*pe}})
			*pe = ast.NewIdent(chName(i))
		}
		orderName := fmt.Sprintf("verifO%d", id)
		doneName := fmt.Sprintf("verifD%d", id)
		pre = append(pre, &ast.AssignStmt{Lhs: []ast.Expr{ast.NewIdent(orderName)}, Tok: token.DEFINE,
			Rhs: []ast.Expr{hookCall("SelOrder", &ast.BasicLit{Kind: token.INT, Value: fmt.Sprint(n)}, strLit(site))}})
		pre = append(pre, &ast.AssignStmt{Lhs: []ast.Expr{ast.NewIdent(doneName)}, Tok: token.DEFINE, Rhs: []ast.Expr{ast.NewIdent("false")}})
		for phase := 0; phase < n; phase++ {
			// masked copies
			var stmts []ast.Stmt
			for i := range comms {
				m := fmt.Sprintf("verifM%d_%d_%d", id, phase, i)
				stmts = append(stmts, &ast.AssignStmt{Lhs: []ast.Expr{ast.NewIdent(m)}, Tok: token.DEFINE, Rhs: []ast.Expr{ast.NewIdent(chName(i))}})
				stmts = append(stmts, &ast.IfStmt{
					Cond: &ast.BinaryExpr{X: &ast.IndexExpr{X: ast.NewIdent(orderName), Index: &ast.BasicLit{Kind: token.INT, Value: fmt.Sprint(phase)}}, Op: token.NEQ, Y: &ast.BasicLit{Kind: token.INT, Value: fmt.Sprint(i)}},
					Body: &ast.BlockStmt{List: []ast.Stmt{&ast.AssignStmt{Lhs: []ast.Expr{ast.NewIdent(m)}, Tok: token.ASSIGN, Rhs: []ast.Expr{ast.NewIdent("nil")}}}},
				})
			}
			psel := &ast.SelectStmt{Body: &ast.BlockStmt{}}
			for i, cc := range comms {
				cp := copyNode(cc).(*ast.CommClause)
				*chanExpr(cp) = ast.NewIdent(fmt.Sprintf("verifM%d_%d_%d", id, phase, i))
				cp.Body = append([]ast.Stmt{&ast.AssignStmt{Lhs: []ast.Expr{ast.NewIdent(doneName)}, Tok: token.ASSIGN, Rhs: []ast.Expr{ast.NewIdent("true")}}}, cp.Body...)
				psel.Body.List = append(psel.Body.List, cp)
			}
			psel.Body.List = append(psel.Body.List, &ast.CommClause{Comm: nil, Body: nil})
			stmts = append(stmts, psel)
			pre = append(pre, &ast.IfStmt{
				Cond: &ast.BinaryExpr{X: &ast.UnaryExpr{Op: token.NOT, X: ast.NewIdent(doneName)}, Op: token.LAND,
					Y: &ast.BinaryExpr{X: &ast.CallExpr{Fun: ast.NewIdent("len"), Args: []ast.Expr{ast.NewIdent(orderName)}}, Op: token.GTR, Y: &ast.BasicLit{Kind: token.INT, Value: fmt.Sprint(phase)}}},
				Body: &ast.BlockStmt{List: stmts},
			})
		}
		// When no case body can fall out of the select (each ends in return / panic /
		// continue / goto and none breaks), "done" is never observed as true here and
		// the original select stays unconditional, so a terminating select keeps
		// terminating its function.
		allLeave := true
		for _, cl := range sel.Body.List {
			cc := cl.(*ast.CommClause)
			if len(cc.Body) == 0 || !isTerminating(cc.Body[len(cc.Body)-1]) {
				allLeave = false
			}
			for _, st := range cc.Body {
				ast.Inspect(st, func(n ast.Node) bool {
					if _, ok := n.(*ast.FuncLit); ok {
						return false
					}
					if b, ok := n.(*ast.BranchStmt); ok && b.Tok == token.BREAK {
						allLeave = false
					}
					return true
				})
			}
		}
		if allLeave {
			pre = append(pre, sel)
		} else {
			pre = append(pre, &ast.IfStmt{Cond: &ast.UnaryExpr{Op: token.NOT, X: ast.NewIdent(doneName)}, Body: &ast.BlockStmt{List: []ast.Stmt{sel}}})
		}
		c.Replace(&ast.BlockStmt{List: pre})
		fc.modified = true
		return true
	})
}

// copyNode deep-copies an AST subtree by printing-independent reflection.
func copyNode(n ast.Node) ast.Node {
	return deepCopy(reflect.ValueOf(n)).Interface().(ast.Node)
}

func deepCopy(v reflect.Value) reflect.Value {
	switch v.Kind() {
	case reflect.Ptr:
		if v.IsNil() {
			return v
		}
		if _, isObj := v.Interface().(*ast.Object); isObj {
			return reflect.Zero(v.Type())
		}
		nv := reflect.New(v.Elem().Type())
		nv.Elem().Set(deepCopy(v.Elem()))
		return nv
	case reflect.Interface:
		if v.IsNil() {
			return v
		}
		nv := reflect.New(v.Type()).Elem()
		nv.Set(deepCopy(v.Elem()))
		return nv
	case reflect.Slice:
		if v.IsNil() {
			return v
		}
		nv := reflect.MakeSlice(v.Type(), v.Len(), v.Len())
		for i := 0; i < v.Len(); i++ {
			nv.Index(i).Set(deepCopy(v.Index(i)))
		}
		return nv
	case reflect.Struct:
		nv := reflect.New(v.Type()).Elem()
		for i := 0; i < v.NumField(); i++ {
			if nv.Field(i).CanSet() {
				nv.Field(i).Set(deepCopy(v.Field(i)))
			}
		}
		return nv
	}
	return v
}

// ---------------------------------------------------------------- time ----

// rewriteTime routes every timer-creating call through verifhook so that the
// simulator can add a unique sub-microsecond offset: two timers never fire at
// the same fake instant, which would leave their wake-up order to the runtime.
func rewriteTime(fc *fileCtx) {
	info := fc.pkg.TypesInfo
	pkgOf := func(e ast.Expr) string {
		id, ok := e.(*ast.Ident)
		if !ok {
			return ""
		}
		if pn, ok := info.Uses[id].(*types.PkgName); ok {
			return pn.Imported().Path()
		}
		return ""
	}
	timeFns := map[string]bool{"Sleep": true, "After": true, "NewTimer": true, "NewTicker": true, "AfterFunc": true, "Tick": true}
	ctxFns := map[string]bool{"WithTimeout": true, "WithDeadline": true}
	ast.Inspect(fc.file, func(n ast.Node) bool {
		call, ok := n.(*ast.CallExpr)
		if !ok {
			return true
		}
		sel, ok := call.Fun.(*ast.SelectorExpr)
		if !ok {
			return true
		}
		switch p := pkgOf(sel.X); {
		case p == "time" && timeFns[sel.Sel.Name]:
			call.Fun = &ast.SelectorExpr{X: ast.NewIdent("verifhook"), Sel: ast.NewIdent(sel.Sel.Name)}
			fc.modified = true
		case p == "context" && ctxFns[sel.Sel.Name]:
			call.Fun = &ast.SelectorExpr{X: ast.NewIdent("verifhook"), Sel: ast.NewIdent(sel.Sel.Name)}
			fc.modified = true
		case p == "" && sel.Sel.Name == "Reset" && len(call.Args) == 1:
			if s, ok := info.Selections[sel]; ok {
				if fn, ok := s.Obj().(*types.Func); ok && fn.Pkg() != nil && fn.Pkg().Path() == "time" {
					// t.Reset(d) -> t.Reset(verifhook.Jitter(d))
					call.Args[0] = hookCall("Jitter", call.Args[0])
					fc.modified = true
				}
			}
		}
		return true
	})
}
