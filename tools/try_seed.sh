#!/bin/bash
# try_seed.sh <property> <patch.diff> [tier]: applies a seeded change to /repo, runs the check, reverts.
# The evidence file of the property is put back afterwards: evidence must come from the unchanged tree.
P=$1; PATCHF=$2; TIER=${3:-quick}
cp /verif/evidence/$P.json /tmp/evidence-$P.keep 2>/dev/null
cd /repo && git apply $PATCHF || { echo "patch does not apply"; exit 2; }
cd /verif && ./bin/vcheck $P $TIER 2>&1 | tail -4; echo "rc=${PIPESTATUS[0]}"
git -C /repo checkout -- . ; find /verif/replays -name "$P-*.json" -newer $PATCHF -delete
[ -f /tmp/evidence-$P.keep ] && mv /tmp/evidence-$P.keep /verif/evidence/$P.json
