#!/bin/bash
# try_seed.sh <property> <patch.diff> [tier]: applies a seeded change to /repo, runs the check, reverts.
P=$1; PATCHF=$2; TIER=${3:-quick}
cd /repo && git apply $PATCHF || { echo "patch does not apply"; exit 2; }
cd /verif && ./bin/vcheck $P $TIER 2>&1 | tail -4; echo "rc=${PIPESTATUS[0]}"
git -C /repo checkout -- . ; find /verif/replays -name "$P-*.json" -newer $PATCHF -delete
