#!/usr/bin/env python3
"""Regenerates /verif/MANIFEST.json from harness/props.json and tools/na.json."""
import json, os
V = os.path.dirname(os.path.dirname(os.path.abspath(__file__)))
props = json.load(open(os.path.join(V, "harness", "props.json")))
na = json.load(open(os.path.join(V, "tools", "na.json")))
ids = [json.loads(l)["id"] for l in open(os.path.join(V, "properties.jsonl"))]
checks = []
for pid in ids:
    if pid not in props:
        continue
    c = props[pid]
    checks.append({
        "property_id": pid,
        "quick_cmd": "./bin/vcheck %s quick" % pid,
        "thorough_cmd": "./bin/vcheck %s thorough" % pid,
        "evidence_file": "evidence/%s.json" % pid,
        "replay_cmd_template": "./bin/vcheck replay {path}",
        "engine": "simkit/" + c["world"],
        "level_claimed": {"category": "exploration", "text": c["level_text"], "design_ref": c.get("design_ref", "DESIGN.md section 8")},
        "level_note": c["level_note"],
        "technique": c.get("technique", "deterministic simulation with fault injection: seeded search over schedules and fault sequences"),
    })
worlds = sorted(set(c["world"] for c in props.values()))
m = {
    "version": 1,
    "setup_cmd": "./bin/setup",
    "hooks": {
        "guard": "verif",
        "enable": "no hook is committed to /repo: each check runs tools/vinst over the current /repo working tree (AST rewrites into a scratch directory: yield points, mutex/select/timer/map-range seams, dial / prologue / result hooks) and builds the harness with `go1.26.8 test -c -tags verif -overlay <scratch>/overlay.json`; all injected files carry //go:build verif",
        "baseline_off_cmd": "cd /repo && TZ=Asia/Shanghai GOFLAGS=-mod=mod GOPROXY=off GOSUMDB=off go test -vet=off -count=1 -timeout 25m ./...",
        "source_commits": [],
        "add_only": True,
    },
    "engines": [{"name": "simkit/" + w, "path": "harness/" + w, "serves_properties": [p for p in ids if p in props and props[p]["world"] == w],
                 "kind_free_text": "deterministic simulation world (choice tape, synctest bubble, parked goroutines, ddmin) over instrumented real code"} for w in worlds],
    "checks": checks,
    "not_applicable": [{"property_id": p, "reason": na.get(p, "not built")} for p in ids if p not in props],
    "notes": "Design: DESIGN.md. Known findings and fixed defects: known_findings.json. Replay: ./bin/vcheck replay <file>. Determinism self-test: ./bin/vcheck selftest <id>.",
}
json.dump(m, open(os.path.join(V, "MANIFEST.json"), "w"), indent=1)
print("checks:", len(checks), "not_applicable:", len(m["not_applicable"]))
