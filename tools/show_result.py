import json,sys
a=[json.load(open(sys.argv[1] if len(sys.argv)>1 else '/tmp/vb1/out.json'))]
print([x['runs'] for x in a], [len(x['violations'] or []) for x in a],[x['wall_s'] for x in a])
for v in (a[0]['violations'] or []):
    print(v['index'],v['clause'],v['detail'],len(v['tape']),v['orig_tape_len'],v['deterministic'],v.get('finding'))
    tr=v['trace']
    out=[];cnt=0
    for l in tr:
        if 'advance 10ms' in l:
            cnt+=1; continue
        if cnt: out.append('   ... %d x advance 10ms'%cnt); cnt=0
        out.append(l)
    print('\n'.join(out))
print(a[0]['probes'],a[0]['faults'],len(a[0]['nontrivial']),len(a[0]['states']),a[0]['leaked_runs'])
