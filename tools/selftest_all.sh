#!/bin/bash
# selftest_all.sh [processes] [runs]: determinism self-test of every registered check; summary in /tmp/selftest_all.log
cd /verif; : > /tmp/selftest_all.log
for P in $(python3 -c "import json;print(' '.join(c['property_id'] for c in json.load(open('MANIFEST.json'))['checks']))"); do
  OUT=$(timeout 1500 ./bin/vcheck selftest $P ${1:-9} ${2:-100} 2>&1 | tail -4 | tr '\n' ' ')
  echo "== $P :: $OUT" >> /tmp/selftest_all.log
done
echo DONE >> /tmp/selftest_all.log
