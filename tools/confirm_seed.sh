#!/bin/bash
# confirm_seed.sh <seed_dir> <pkg_dir_for_demo> <demo_file_name> [test packages...]
# Confirms in a scratch worktree: demo passes without patch, patch applies+builds,
# demo fails with patch, listed packages' existing tests pass with the patch.
set -u
export GOFLAGS=-mod=mod GOPROXY=off GOSUMDB=off GOTOOLCHAIN=local
SEED=$1; PKG=$2; DEMO=$3; shift 3
WT=/tmp/cs/$(basename $SEED)
rm -rf $WT; git -C /repo worktree prune; git -C /repo worktree add -q --detach $WT HEAD || exit 2
cd $WT
cp $SEED/demo_test.go $PKG/$DEMO
echo "== demo without patch"; go test -vet=off -count=1 -gcflags="all=-N -l" -run 'C[0-9]+|Demo|Seed|TestDemoC' ./$PKG/ 2>&1 | grep -E "^(--- FAIL|FAIL|ok|panic)" | head -5
rm $PKG/$DEMO
git apply $SEED/patch.diff || { echo "PATCH DOES NOT APPLY"; cd /; git -C /repo worktree remove --force $WT; exit 1; }
echo "== build"; go build ./... 2>&1 | head -5
echo "== existing tests with patch"; go test -vet=off -count=1 -gcflags="all=-N -l" "$@" 2>&1 | grep -E "^(--- FAIL|FAIL|ok|panic)" | head -20
cp $SEED/demo_test.go $PKG/$DEMO
echo "== demo with patch"; go test -vet=off -count=1 -gcflags="all=-N -l" -run 'C[0-9]+|Demo|Seed|TestDemoC' ./$PKG/ 2>&1 | grep -E "^(--- FAIL|FAIL|ok|panic)" | head -5
cd /; git -C /repo worktree remove --force $WT
