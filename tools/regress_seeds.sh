#!/bin/bash
# one stored seed per property (the first whose patch applies to HEAD and whose meta says it is caught by the property's own check)
cd /verif
: > /tmp/regress.log
for P in $(python3 -c "import json;print(' '.join(c['property_id'] for c in json.load(open('MANIFEST.json'))['checks']))"); do
  PICK=""
  for d in $(ls -d seeded/${P}_* | sort -R --random-source=<(yes 7)); do
    by=$(python3 -c "import json;m=json.load(open('$d/meta.json'));b=m.get('caught_by');print('yes' if (b is None and m.get('caught_by_quick_check')) or (b and '$P' in b) else 'no')")
    [ "$by" = yes ] || continue
    for pf in $d/patch_ported_to_fixed_tree.diff $d/patch.diff; do
      [ -f $pf ] || continue
      if (cd /repo && git apply --check /verif/$pf 2>/dev/null); then PICK=/verif/$pf; break 2; fi
    done
  done
  if [ -z "$PICK" ]; then echo "== $P :: no applicable seed" >> /tmp/regress.log; continue; fi
  OUT=$(VERIF_WALL_S=15 timeout 900 tools/try_seed.sh $P $PICK 2>&1 | grep -E "violated|rc=" | head -2 | cut -c1-160 | tr '\n' ' ')
  echo "== $P :: $(basename $(dirname $PICK)) :: $OUT" >> /tmp/regress.log
done
echo DONE >> /tmp/regress.log
